#!/bin/bash
# seeded_eval_par.sh <workers> <glob of seeded dirs, default all> : development aid. Evaluates seeded changes in parallel,
# each worker in its own scratch worktree of /repo HEAD (xvc --repo); the recorded run (seeded/RESULTS.txt) is the serial
# one of seeded_eval.sh, which applies each change to /repo itself.
n=${1:-4}; shift
dirs=("$@"); [ ${#dirs[@]} -eq 0 ] && dirs=(/verif/seeded/C*-*)
mkdir -p /tmp/mut /root/scratch/par; rm -f /root/scratch/par/res*.txt
head=$(git -C /repo rev-parse HEAD)
work() {
  w=$1; shift
  wt=/tmp/mut/par$w
  [ -d $wt ] || git -C /repo worktree add -q --detach $wt HEAD
  (cd $wt && git checkout -q --detach $head && git checkout -q -- . && git clean -fdq)
  for d in "$@"; do
    id=$(basename $d | cut -d- -f1)
    (cd $wt && git checkout -q -- . && git clean -fdq && git apply $d/patch.diff 2>/dev/null) || { echo "$(basename $d) $id APPLY-FAIL"; continue; }
    out=$(XVC_OUT=/root/scratch/par/out$w /verif/bin/xvc check $id --repo $wt --tier quick 2>&1); rc=$?
    v=$(echo "$out" | grep -c '^VIOLATION')
    first=$(echo "$out" | grep '^VIOLATION' | head -3 | sed "s/.*replays.//" | tr '\n' ' ')
    echo "$(basename $d) $id rc=$rc violations=$v $first"
  done
  (cd $wt && git checkout -q -- . && git clean -fdq)
}
for ((w=0; w<n; w++)); do
  mine=(); for ((i=w; i<${#dirs[@]}; i+=n)); do mine+=("${dirs[$i]}"); done
  work $w "${mine[@]}" > /root/scratch/par/res$w.txt &
done
wait
cat /root/scratch/par/res*.txt | sort | tee /root/scratch/par/RESULTS.txt
