#!/bin/bash
# confirm_seeded.sh <dir with k.diff k_demo_test.go k.json> <k> : confirms a seeded change in a scratch worktree of /repo
# prints: <id>/<k> apply=ok|fail demo_before=pass|fail suite_with=pass|fail demo_with=fail|pass
export GOFLAGS=-mod=mod GOPROXY=off GOSUMDB=off GOTOOLCHAIN=local
d=$1; k=$2
wt=/tmp/mut/confirm
if [ ! -d $wt ]; then git -C /repo worktree add -q --detach $wt HEAD || exit 2; fi
cd $wt && git reset -q --hard && git checkout -q --detach $(git -C /repo rev-parse HEAD) && git checkout -q -- . && git clean -fdq
place=$(grep -m1 -o 'place in: *[a-z/]*' $d/${k}_demo_test.go | sed 's/place in: *//; s/\/$//')
[ -z "$place" ] && place=compiler
tname=$(grep -o 'func TestSeeded[A-Za-z0-9_]*' $d/${k}_demo_test.go | head -1 | sed 's/func //')
cp $d/${k}_demo_test.go $wt/$place/xseeded_${k}_demo_test.go
before=fail; go test -vet=off -count=1 -timeout 120s -run "^${tname}\$" ./$place >/tmp/mut/confirm.log 2>&1 && before=pass
apply=ok; git apply $d/$k.diff 2>/dev/null || { git apply -3 $d/$k.diff >/dev/null 2>&1 && git reset -q && apply=ok3; } || apply=fail
suite=fail; demo=pass
if [ $apply != fail ]; then
  rm -f $wt/$place/xseeded_${k}_demo_test.go
  go test -vet=off -count=1 ./... >/tmp/mut/confirm2.log 2>&1 && suite=pass
  cp $d/${k}_demo_test.go $wt/$place/xseeded_${k}_demo_test.go
  go test -vet=off -count=1 -timeout 120s -run "^${tname}\$" ./$place >/tmp/mut/confirm3.log 2>&1 || demo=fail
fi
echo "$(basename $d)/$k place=$place test=$tname apply=$apply demo_before=$before suite_with=$suite demo_with=$demo"
git reset -q --hard; git clean -fdq
