#!/usr/bin/env python3
"""install_round.py <round> <outdir-prefix> <ids...>: moves confirmed seeded changes (<prefix><id>/{a,b}.diff, _demo_test.go, .json)
into /verif/seeded/<id>-r<round><k>/ (patch.diff, demo_test.go, meta.json)."""
import json, os, re, shutil, sys
rnd, prefix, ids = sys.argv[1], sys.argv[2], sys.argv[3:]
for pid in ids:
    for k in "ab":
        src = f"{prefix}{pid}"
        if not os.path.exists(f"{src}/{k}.diff"): continue
        dst = f"/verif/seeded/{pid}-r{rnd}{k}"
        os.makedirs(dst, exist_ok=True)
        shutil.copy(f"{src}/{k}.diff", f"{dst}/patch.diff")
        shutil.copy(f"{src}/{k}_demo_test.go", f"{dst}/demo_test.go")
        demo = open(f"{dst}/demo_test.go").read()
        place = re.search(r"place in: *([a-z/]+)", demo).group(1)
        test = re.search(r"func (TestSeeded\w+)", demo).group(1)
        m = json.load(open(f"{src}/{k}.json"))
        meta = {"property": pid, "summary": m.get("summary", ""), "needs_to_manifest": m.get("needs_to_manifest", ""),
                "files": m.get("files", []), "why_tests_pass": m.get("why_tests_pass", ""), "round": int(rnd),
                "origin": f"written by an independent sub-agent (round {rnd}) that saw only the property text and a scratch worktree without the contract files (no access to /verif)",
                "demo": {"place_in": place, "test": test},
                "confirmed": "in a scratch worktree of /repo HEAD (tools/confirm_seeded.sh): demo passes without the change; with the change the whole baseline suite passes and the demo fails"}
        json.dump(meta, open(f"{dst}/meta.json", "w"), indent=1)
        print("installed", dst)
