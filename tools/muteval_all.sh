#!/bin/bash
# evaluates every seeded change under a directory tree (out-<ID>/<k>.diff or <ID>*/patch.diff) against its own property
root=${1:-/tmp/mut}
for d in $root/out-C*; do
  id=$(basename $d | sed 's/out-//')
  for k in a b c; do
    [ -f $d/$k.diff ] && /verif/tools/muteval.sh $d/$k.diff $id
  done
done
