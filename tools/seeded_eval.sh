#!/bin/bash
# Runs every seeded change in /verif/seeded against the check of the property it breaks (must-fail corpus).
# Applies each patch to /repo, runs the check with outputs redirected (XVC_OUT), and reverts. Writes seeded/RESULTS.txt.
out=/verif/seeded/RESULTS.txt
: > $out.tmp
for d in /verif/seeded/C*-*; do
  id=$(basename $d | cut -d- -f1)
  /verif/tools/muteval.sh $d/patch.diff $id | sed "s#^seeded/##" >> $out.tmp
done
mv $out.tmp $out
echo "caught: $(grep -c 'rc=1' $out) / $(wc -l < $out)"
