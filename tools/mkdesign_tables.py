#!/usr/bin/env python3
"""Regenerates the seeded / benign result tables of DESIGN.md section 8 from seeded/RESULTS.txt and benign/RESULTS.txt."""
import json, re, os
def seeded_table():
    rows=[]; caught=0; total=0
    for ln in open('/verif/seeded/RESULTS.txt'):
        f=ln.split()
        if len(f)<3 or f[0]=='APPLY-FAIL': continue
        sid,prop,rc=f[0],f[1],f[2]
        obs=[t.split('/')[-1][:-5] for t in f[4:] if t.endswith('.json')]
        meta=json.load(open(f'/verif/seeded/{sid}/meta.json'))
        summ=meta.get('summary','').replace('|','/').replace('\n',' ')
        if len(summ)>140: summ=summ[:137]+'...'
        total+=1
        ok = rc!='rc=0'
        caught+=ok
        replayed = 'no-failing-input-found' not in ln and ok
        rows.append(f"| {sid} | {summ} | {'yes' if ok else '**no**'}{' (replayed)' if replayed else ''} | {'; '.join('`'+o+'`' for o in obs[:2]) if obs else '—'} |")
    hdr="| seeded change | what it does | caught by its property's check | failing obligation(s) (file names under replays/) |\n|---|---|---|---|\n"
    return hdr+"\n".join(rows), caught, total
def benign_table():
    res={}
    for ln in open('/verif/benign/RESULTS.txt'):
        f=ln.split()
        if len(f)<3: continue
        res.setdefault(f[0],[]).append((f[1],f[2],ln))
    rows=[]; ok=0
    for k in sorted(res):
        meta=json.load(open(f'/verif/benign/{k}/meta.json')) if os.path.exists(f'/verif/benign/{k}/meta.json') else {}
        summ=(meta.get('summary','') or '').replace('|','/').replace('\n',' ')
        if len(summ)>150: summ=summ[:147]+'...'
        bad=[p for p,rc,_ in res[k] if rc!='rc=0']
        if not bad: ok+=1
        why=''
        if bad:
            ln=[l for p,rc,l in res[k] if rc!='rc=0'][0]
            obs=[t.split('/')[-1][:-5] for t in ln.split()[4:] if t.endswith('.json')]
            why='; '.join('`'+o+'`' for o in obs[:2])
        rows.append(f"| {k} | {summ} | {'none' if not bad else '**'+' '.join(bad)+'**'} | {why} |")
    hdr="| refactoring | what it does | checks that raise a (false) alarm | obligation reported |\n|---|---|---|---|\n"
    return hdr+"\n".join(rows), ok, len(res)
def counts_table():
    import glob
    rows=[]; tot=0; tw=0
    for f in sorted(glob.glob('/verif/evidence/C*.json')):
        d=json.load(open(f)); c=d['coverage']
        be=c.get('discharged_by_backend') or {}
        tot+=c['obligations'] if 'obligations' in c else c['discharged']; tw+=d.get('wall_s',0)
        rows.append(f"| {d['property_id']} | {c.get('obligations',c['discharged'])} | {c['discharged']} | {len(c.get('functions_under_contract',[]))} | {', '.join(f'{k}: {v}' for k,v in sorted(be.items()))} | {d.get('wall_s',0):.0f} s | {len(c.get('bounded') or [])} |")
    hdr="| check | obligations | discharged | functions under contract | discharged by back end | wall (quick) | bounded stand-ins |\n|---|---|---|---|---|---|---|\n"
    return hdr+"\n".join(rows)+f"\n\nTotal: {tot} named obligations per full quick run, {tw:.0f} s sequentially on this machine.", tot
if __name__=='__main__':
    st,c,t=seeded_table(); bt,o,n=benign_table()
    s=open('/verif/DESIGN.md').read()
    a=s.index('<!-- SEEDED-TABLE-BEGIN -->'); b=s.index('<!-- SEEDED-TABLE-END -->')
    s=s[:a]+'<!-- SEEDED-TABLE-BEGIN -->\n'+f"**Must-fail corpus: {c} of {t} seeded changes are caught by the check of the property they break.**\n\n"+st+'\n'+s[b:]
    a=s.index('<!-- BENIGN-TABLE-BEGIN -->'); b=s.index('<!-- BENIGN-TABLE-END -->')
    s=s[:a]+'<!-- BENIGN-TABLE-BEGIN -->\n'+f"**Must-pass corpus: {o} of {n} behaviour-preserving refactorings raise no alarm.**\n\n"+bt+'\n'+s[b:]
    ct,tot=counts_table()
    a=s.index('<!-- COUNTS-BEGIN -->'); b=s.index('<!-- COUNTS-END -->')
    s=s[:a]+'<!-- COUNTS-BEGIN -->\n'+ct+'\n'+s[b:]
    open('/verif/DESIGN.md','w').write(s)
    print(c,t,o,n,tot)
