#!/bin/bash
# beneval.sh <patch> <prop>... : applies a behaviour-preserving patch to a scratch worktree of /repo (/tmp/ben/eval) and
# runs the given checks against that worktree (xvc --repo). A VIOLATION here is a false alarm.
patch=$1; shift
wt=/tmp/ben/eval
cd $wt && git checkout -q --detach $(git -C /repo rev-parse HEAD) && git checkout -q -- . && git clean -fdq
if ! git apply "$patch" 2>/tmp/ben/apply.err; then echo "$(basename $(dirname $patch)) - APPLY-FAIL $(head -1 /tmp/ben/apply.err)"; exit 3; fi
for p in "$@"; do
  out=$(XVC_OUT=/root/scratch/benout /verif/bin/xvc check $p --repo $wt --tier quick 2>&1)
  rc=$?
  v=$(echo "$out" | grep -c '^VIOLATION')
  first=$(echo "$out" | grep '^VIOLATION' | head -4 | sed "s/.*replays.//" | tr '\n' ' ')
  echo "$(basename $(dirname $patch)) $p rc=$rc violations=$v $first"
done
git checkout -q -- . ; git clean -fdq
