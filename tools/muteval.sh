#!/bin/bash
# usage: muteval.sh <patch.diff> <prop>...   -- applies the patch to /repo, runs the checks, reverts. Prints one line per prop.
patch=$1; shift
cd /repo || exit 2
if ! git diff --quiet; then echo "REPO DIRTY"; exit 2; fi
if ! git apply "$patch" 2>/tmp/muteval.err; then echo "APPLY-FAIL $patch: $(head -1 /tmp/muteval.err)"; exit 3; fi
for p in "$@"; do
  out=$(XVC_OUT=/root/scratch/mutout /verif/bin/xvc check $p --tier quick 2>&1)
  rc=$?
  v=$(echo "$out" | grep -c '^VIOLATION')
  first=$(echo "$out" | grep '^VIOLATION' | head -3 | sed "s/.*replays.//" | tr '\n' ' ')
  echo "$(basename $(dirname $patch)) $p rc=$rc violations=$v $first"
done
git checkout -- . ; git clean -fdq -- . 2>/dev/null
