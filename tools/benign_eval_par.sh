#!/bin/bash
# benign_eval_par.sh <workers> : evaluates the must-pass corpus on parallel scratch worktrees of /repo HEAD (xvc --repo);
# writes benign/RESULTS.txt. A VIOLATION on one of these behaviour-preserving patches is a false alarm.
n=${1:-5}
dirs=(/verif/benign/[a-z]*-[a-h])
mkdir -p /tmp/ben /root/scratch/bpar; rm -f /root/scratch/bpar/res*.txt
head=$(git -C /repo rev-parse HEAD)
work() {
  w=$1; shift
  wt=/tmp/ben/par$w
  [ -d $wt ] || git -C /repo worktree add -q --detach $wt HEAD
  (cd $wt && git checkout -q --detach $head && git checkout -q -- . && git clean -fdq)
  for d in "$@"; do
    props=$(python3 -c "import json;print(' '.join(json.load(open('$d/meta.json'))['checks']))")
    (cd $wt && git checkout -q -- . && git clean -fdq && git apply $d/patch.diff 2>/dev/null) || { echo "$(basename $d) - APPLY-FAIL"; continue; }
    for p in $props; do
      out=$(XVC_OUT=/root/scratch/bpar/out$w /verif/bin/xvc check $p --repo $wt --tier quick 2>&1); rc=$?
      v=$(echo "$out" | grep -c '^VIOLATION')
      first=$(echo "$out" | grep '^VIOLATION' | head -4 | sed "s/.*replays.//" | tr '\n' ' ')
      echo "$(basename $d) $p rc=$rc violations=$v $first"
    done
  done
  (cd $wt && git checkout -q -- . && git clean -fdq)
}
for ((w=0; w<n; w++)); do
  mine=(); for ((i=w; i<${#dirs[@]}; i+=n)); do mine+=("${dirs[$i]}"); done
  work $w "${mine[@]}" > /root/scratch/bpar/res$w.txt &
done
wait
cat /root/scratch/bpar/res*.txt | sort -s -k1,1 > /verif/benign/RESULTS.txt
echo "patches without alarm: $(awk '{k[$1]=1; if ($3!="rc=0") bad[$1]=1} END {n=0; for (x in k) if (!(x in bad)) n++; print n "/" length(k)}' /verif/benign/RESULTS.txt)"
