#!/bin/bash
# Runs every behaviour-preserving refactoring in /verif/benign against the checks of its area (must-pass corpus),
# on a scratch worktree of /repo (never /repo itself). A VIOLATION here is a false alarm. Writes benign/RESULTS.txt.
[ -d /tmp/ben/eval ] || { mkdir -p /tmp/ben; git -C /repo worktree add -q --detach /tmp/ben/eval HEAD; }
out=/verif/benign/RESULTS.txt
: > $out.tmp
for d in /verif/benign/[a-z]*-[a-h]; do
  props=$(python3 -c "import json;print(' '.join(json.load(open('$d/meta.json'))['checks']))")
  /verif/tools/beneval.sh $d/patch.diff $props >> $out.tmp
done
mv $out.tmp $out
echo "patches without alarm: $(awk '{k[$1]=1; if ($3!="rc=0") bad[$1]=1} END {n=0; for (x in k) if (!(x in bad)) n++; print n "/" length(k)}' $out)"
