package main

// tryReplay renders the solver's counterexample as an in-package Go test against the real code.
// Returns true if the real code fails the clause (or panics) on the model's pre-state.
func tryReplay(w *World, fn, ob string, o *ObResult, rep map[string]interface{}) bool {
	return false
}
