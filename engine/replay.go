package main

import (
	"bytes"
	"encoding/json"
	"fmt"
	"go/ast"
	"go/parser"
	"go/printer"
	"go/token"
	"go/types"
	"os"
	"os/exec"
	"path/filepath"
	"regexp"
	"sort"
	"strings"
	"sync"
)

// The executable side of the contracts: every requires/ensures clause is ordinary Go, so the same contract that
// is proved can be *run* against the real function. This is used (a) to replay a refuted / undecided obligation
// against the real code (looking for a concrete failing pre-state), and (b) in the thorough tier to validate the
// specifications and the engine on a bounded domain. Pre-states come from per-type generators kept in
// /verif/harness/<pkg>_states.go.txt (package-internal test files injected with `go test -overlay`; nothing is
// written into /repo).

type Failure struct {
	Fn     string `json:"function"`
	Clause string `json:"clause"`
	Kind   string `json:"kind"` // "ensures" or "panic"
	State  string `json:"pre_state"`
	Args   string `json:"args"`
	Detail string `json:"detail"`
}

type boundedResult struct {
	Fails  []Failure
	Runs   int
	Err    string
	Labels []string // labels of the ensures clauses that were executable
}

var harnessMu sync.Mutex
var harnessCache = map[string]*boundedResult{}

// exprString prints an expression.
func exprString(fset *token.FileSet, x ast.Expr) string {
	var b bytes.Buffer
	printer.Fprint(&b, fset, x)
	return b.String()
}

// hoistOld replaces old(e) by fresh identifiers and returns the hoisted expressions with their types.
func hoistOld(cl *Clause, qual types.Qualifier) (text string, olds []string, oldTypes []string, ok bool) {
	fset := cl.Fn.Pkg.Fset
	info := cl.Fn.Pkg.TypesInfo
	ret := cl.Fn.Decl.Body.List[0].(*ast.ReturnStmt)
	ok = true
	// collect bound variable names of func literals to detect old() depending on them
	var rewrite func(n ast.Node, bound map[string]bool) ast.Node
	var rewriteExpr func(x ast.Expr, bound map[string]bool) ast.Expr
	usesBound := func(x ast.Expr, bound map[string]bool) bool {
		found := false
		ast.Inspect(x, func(n ast.Node) bool {
			if id, isId := n.(*ast.Ident); isId && bound[id.Name] {
				found = true
			}
			return true
		})
		return found
	}
	rewriteExpr = func(x ast.Expr, bound map[string]bool) ast.Expr {
		switch e := x.(type) {
		case *ast.CallExpr:
			if id, isId := e.Fun.(*ast.Ident); isId && id.Name == "old" && len(e.Args) == 1 {
				if usesBound(e.Args[0], bound) {
					ok = false
					return x
				}
				name := fmt.Sprintf("xvcOld%d", len(olds))
				olds = append(olds, exprString(fset, e.Args[0]))
				oldTypes = append(oldTypes, types.TypeString(info.TypeOf(e.Args[0]), qual))
				return ast.NewIdent(name)
			}
			if id, isId := e.Fun.(*ast.Ident); isId && id.Name == "implies" && len(e.Args) == 2 {
				// lazy in the executable form: the consequent may dereference what the antecedent guards
				return &ast.ParenExpr{X: &ast.BinaryExpr{Op: token.LOR,
					X: &ast.UnaryExpr{Op: token.NOT, X: &ast.ParenExpr{X: rewriteExpr(e.Args[0], bound)}},
					Y: &ast.ParenExpr{X: rewriteExpr(e.Args[1], bound)}}}
			}
			ne := *e
			ne.Args = nil
			for _, a := range e.Args {
				ne.Args = append(ne.Args, rewriteExpr(a, bound))
			}
			ne.Fun = rewriteExpr(e.Fun, bound)
			return &ne
		case *ast.FuncLit:
			nb := map[string]bool{}
			for k := range bound {
				nb[k] = true
			}
			for _, f := range e.Type.Params.List {
				for _, n := range f.Names {
					nb[n.Name] = true
				}
			}
			ne := *e
			body := *e.Body
			body.List = nil
			for _, s := range e.Body.List {
				body.List = append(body.List, rewrite(s, nb).(ast.Stmt))
			}
			ne.Body = &body
			return &ne
		case *ast.BinaryExpr:
			ne := *e
			ne.X, ne.Y = rewriteExpr(e.X, bound), rewriteExpr(e.Y, bound)
			return &ne
		case *ast.UnaryExpr:
			ne := *e
			ne.X = rewriteExpr(e.X, bound)
			return &ne
		case *ast.ParenExpr:
			ne := *e
			ne.X = rewriteExpr(e.X, bound)
			return &ne
		case *ast.SelectorExpr:
			ne := *e
			ne.X = rewriteExpr(e.X, bound)
			return &ne
		case *ast.IndexExpr:
			ne := *e
			ne.X, ne.Index = rewriteExpr(e.X, bound), rewriteExpr(e.Index, bound)
			return &ne
		case *ast.SliceExpr:
			ne := *e
			ne.X = rewriteExpr(e.X, bound)
			if e.Low != nil {
				ne.Low = rewriteExpr(e.Low, bound)
			}
			if e.High != nil {
				ne.High = rewriteExpr(e.High, bound)
			}
			return &ne
		case *ast.CompositeLit:
			ne := *e
			ne.Elts = nil
			for _, el := range e.Elts {
				ne.Elts = append(ne.Elts, rewriteExpr(el, bound))
			}
			return &ne
		case *ast.KeyValueExpr:
			ne := *e
			ne.Value = rewriteExpr(e.Value, bound)
			return &ne
		case *ast.StarExpr:
			ne := *e
			ne.X = rewriteExpr(e.X, bound)
			return &ne
		}
		return x
	}
	rewrite = func(n ast.Node, bound map[string]bool) ast.Node {
		switch s := n.(type) {
		case *ast.ReturnStmt:
			ns := *s
			ns.Results = nil
			for _, r := range s.Results {
				ns.Results = append(ns.Results, rewriteExpr(r, bound))
			}
			return &ns
		case *ast.ExprStmt:
			ns := *s
			ns.X = rewriteExpr(s.X, bound)
			return &ns
		}
		return n
	}
	nr := rewrite(ret, map[string]bool{}).(*ast.ReturnStmt)
	text = exprString(fset, nr.Results[0])
	return
}

var domByType = map[string]string{
	"byte":  "xvcDomByte",
	"uint8": "xvcDomByte",
	"int":   "xvcDomInt",
	"bool":  "xvcDomBool",
	"string": "xvcDomString",
	"rune":  "xvcDomRune",
	"int32": "xvcDomRune",
}

// genHarness writes the bounded-run test for the given functions of one package.
func (w *World) genHarness(pkg string, keys []string) (string, []string, error) {
	w.markGhostSpecs()
	imports := map[string]string{"testing": "", "fmt": "", "os": "", "strings": ""}
	qual := func(p *types.Package) string {
		if p.Name() == pkg {
			return ""
		}
		imports[p.Path()] = p.Name()
		return p.Name()
	}
	var body strings.Builder
	var done []string
	for _, key := range keys {
		con := w.Contracts[key]
		fn := w.Funcs[key]
		if con == nil || fn == nil || fn.Parent() != nil {
			continue
		}
		if w.harnessLabels != nil {
			delete(w.harnessLabels, key)
		}
		vars := collectVarsCon(fn, con)
		// receiver / first pointer param must have a generator; other params must have a domain
		sig := fn.Signature
		recvIdx := -1
		var loops []string
		var callArgs []string
		okFn := true
		genName := ""
		for i, n := range vars.PNames {
			t := vars.PTypes[i]
			ts := types.TypeString(t, qual)
			if pt, isPtr := t.(*types.Pointer); isPtr && recvIdx < 0 {
				if nt, isNamed := pt.Elem().(*types.Named); isNamed {
					recvIdx = i
					genName = "xvcGen_" + nt.Obj().Name()
					if nt.Obj().Pkg() != nil && nt.Obj().Pkg().Name() != pkg {
						genName = "xvcGen_" + nt.Obj().Pkg().Name() + "_" + nt.Obj().Name()
					}
					continue
				}
			}
			d, has := domByType[ts]
			if !has {
				if nt, isNamed := t.(*types.Named); isNamed && isIntType(t) {
					d = "xvcDom_" + nt.Obj().Name()
					loops = append(loops, fmt.Sprintf("for _, %s := range %s {", n, d))
					continue
				}
				if _, isFn := t.Underlying().(*types.Signature); !isFn {
					// other types: the state file may offer a domain named after the type (xvcDom_ast_Expression)
					dn := "xvcDom_" + sanitize(ts)
					if bytes.Contains(w.harnessStates(pkg), []byte("var "+dn+" ")) {
						loops = append(loops, fmt.Sprintf("for _, %s := range %s {", n, dn))
						continue
					}
				}
				okFn = false
				break
			}
			if ts == "string" || ts == "byte" || ts == "uint8" || ts == "bool" || ts == "int" || ts == "rune" || ts == "int32" {
				loops = append(loops, fmt.Sprintf("for _, %s := range %s {", n, d))
			}
		}
		if !okFn || len(vars.PNames) != len(fn.Params) {
			continue
		}
		for _, n := range vars.PNames {
			callArgs = append(callArgs, n)
		}
		// clause texts
		type ens struct {
			label, text   string
			olds, oldTyps []string
		}
		var enss []ens
		for i, cl := range con.Ensures {
			if usesTrace(cl) || usesGhost(cl) || cl.Def {
				continue // clauses over ghost state have no executable meaning
			}
			txt, olds, ots, ok := hoistOld(cl, qual)
			if !ok {
				continue
			}
			lab := cl.Label
			if lab == "" {
				lab = fmt.Sprintf("%d", i+1)
			}
			enss = append(enss, ens{lab, txt, olds, ots})
			if w.harnessLabels == nil {
				w.harnessLabels = map[string][]string{}
			}
			w.harnessLabels[key] = append(w.harnessLabels[key], lab)
		}
		fname := "xvcRun_" + sanitize(key)
		fmt.Fprintf(&body, "func %s(report func(kind, clause, state, args, detail string)) int {\n\txvcN := 0\n", fname)
		for _, l := range loops {
			body.WriteString("\t" + l + "\n")
		}
		inner := func(b *strings.Builder) {
			var argDesc []string
			for i, n := range vars.PNames {
				if i == recvIdx {
					continue
				}
				argDesc = append(argDesc, fmt.Sprintf("%s=%%#v", n))
			}
			var argVals []string
			for i, n := range vars.PNames {
				if i == recvIdx {
					continue
				}
				argVals = append(argVals, n)
			}
			fmt.Fprintf(b, "\t\targs := fmt.Sprintf(%q%s)\n", strings.Join(argDesc, " "), prefixComma(argVals))
			for _, cl := range con.Requires {
				if usesTrace(cl) || usesGhost(cl) {
					continue
				}
				fmt.Fprintf(b, "\t\t{\n\t\t\tok := false\n\t\t\txvcCatch(func() { ok = %s(%s) })\n\t\t\tif !ok {\n\t\t\t\treturn\n\t\t\t}\n\t\t}\n", cl.GenName, strings.Join(callArgs, ", "))
			}
			if recvIdx >= 0 {
				fmt.Fprintf(b, "\t\tstate := xvcShow(%s)\n", vars.PNames[recvIdx])
			} else {
				b.WriteString("\t\tstate := \"\"\n")
			}
			k := 0
			for _, e := range enss {
				for j, o := range e.olds {
					// pre-state values are evaluated defensively: an old() under a guard (m == nil || old(f(m)) ...) may not be
					// evaluable in every pre-state; the guard then decides the clause
					fmt.Fprintf(b, "\t\tvar xvcOld_%d_%d %s\n\t\txvcCatch(func() { xvcOld_%d_%d = %s })\n", k, j, e.oldTyps[j], k, j, o)
				}
				k++
			}
			// call
			var resNames []string
			for i := range vars.RNames {
				fmt.Fprintf(b, "\t\tvar %s %s\n", vars.RNames[i], types.TypeString(vars.RTypes[i], qual))
				resNames = append(resNames, vars.RNames[i])
			}
			call := ""
			if sig.Recv() != nil {
				call = fmt.Sprintf("%s.%s(%s)", callArgs[0], fn.Name(), strings.Join(callArgs[1:], ", "))
			} else {
				call = fmt.Sprintf("%s(%s)", fn.Name(), strings.Join(callArgs, ", "))
			}
			asg := ""
			if len(resNames) > 0 {
				asg = strings.Join(resNames, ", ") + " = "
			}
			fmt.Fprintf(b, "\t\txvcN++\n\t\tif p := xvcCatch(func() { %s%s }); p != \"\" {\n\t\t\treport(\"panic\", \"\", state, args, p)\n\t\t\treturn\n\t\t}\n", asg, call)
			for _, r := range resNames {
				fmt.Fprintf(b, "\t\t_ = %s\n", r)
			}
			k = 0
			for _, e := range enss {
				txt := e.text
				for j := len(e.olds) - 1; j >= 0; j-- {
					txt = strings.ReplaceAll(txt, fmt.Sprintf("xvcOld%d", j), fmt.Sprintf("xvcOld_%d_%d", k, j))
				}
				// longest index first is not needed: names are replaced from xvcOld0.. in order; guard against prefix clashes
				fmt.Fprintf(b, "\t\tif p := xvcCatch(func() {\n\t\t\tif !(%s) {\n\t\t\t\treport(\"ensures\", %q, state, args, \"clause evaluates to false\")\n\t\t\t}\n\t\t}); p != \"\" {\n\t\t\treport(\"ensures\", %q, state, args, \"clause panics: \"+p)\n\t\t}\n", txt, e.label, e.label)
				k++
			}
		}
		if recvIdx >= 0 {
			fmt.Fprintf(&body, "\t%s(func(%s %s) {\n", genName, vars.PNames[recvIdx], types.TypeString(vars.PTypes[recvIdx], qual))
			inner(&body)
			body.WriteString("\t})\n")
		} else {
			body.WriteString("\tfunc() {\n")
			inner(&body)
			body.WriteString("\t}()\n")
		}
		for range loops {
			body.WriteString("\t}\n")
		}
		body.WriteString("\treturn xvcN\n}\n\n")
		done = append(done, key)
	}
	// packages imported by the contracts file and mentioned in the clause texts
	if cp := w.Pkgs[pkg]; cp != nil {
		for _, f := range cp.Syntax {
			if filepath.Base(cp.Fset.Position(f.Pos()).Filename) != contractFile {
				continue
			}
			for _, im := range f.Imports {
				path := strings.Trim(im.Path.Value, "\"")
				name := shortPkg(path)
				if im.Name != nil {
					name = im.Name.Name
				}
				if regexp.MustCompile(`\b` + regexp.QuoteMeta(name) + `\.`).MatchString(reStrLit.ReplaceAllString(body.String(), `""`)) {
					imports[path] = name
				}
			}
		}
	}
	var hdr strings.Builder
	hdr.WriteString("//go:build verif\n\npackage " + pkg + "\n\nimport (\n")
	var ips []string
	for p := range imports {
		ips = append(ips, p)
	}
	sort.Strings(ips)
	for _, p := range ips {
		fmt.Fprintf(&hdr, "\t%q\n", p)
	}
	hdr.WriteString(")\n\nvar _ = strings.Repeat\n\n")
	// dispatcher test
	var disp strings.Builder
	disp.WriteString("func TestXvcBounded(t *testing.T) {\n\ttarget := os.Getenv(\"XVC_TARGET\")\n\tmaxFail := 3\n\tfails := map[string]int{}\n\treport := func(fn string) func(kind, clause, state, args, detail string) {\n\t\treturn func(kind, clause, state, args, detail string) {\n\t\t\tk := fn + \"/\" + kind + \"/\" + clause\n\t\t\tfails[k]++\n\t\t\tif fails[k] <= maxFail {\n\t\t\t\tfmt.Printf(\"XVC-FAIL\\t%s\\t%s\\t%s\\t%q\\t%q\\t%q\\n\", fn, kind, clause, state, args, detail)\n\t\t\t}\n\t\t}\n\t}\n")
	for _, key := range done {
		fmt.Fprintf(&disp, "\tif target == \"\" || target == %q {\n\t\tn := xvcRun_%s(report(%q))\n\t\tfmt.Printf(\"XVC-RUNS\\t%%s\\t%%d\\n\", %q, n)\n\t}\n", key, sanitize(key), key, key)
	}
	disp.WriteString("}\n")
	return hdr.String() + body.String() + disp.String(), done, nil
}

func prefixComma(xs []string) string {
	if len(xs) == 0 {
		return ""
	}
	return ", " + strings.Join(xs, ", ")
}

// boundedRun runs the executable contracts of the given functions (all of one package) on the bounded domain.
func (w *World) boundedRun(pkg string, keys []string, target string) *boundedResult {
	res := &boundedResult{}
	src, done, err := w.genHarness(pkg, keys)
	src = dropUnusedImports(src)
	if err != nil {
		res.Err = err.Error()
		return res
	}
	if len(done) == 0 {
		res.Err = "no function of package " + pkg + " has an executable harness"
		return res
	}
	states, err := os.ReadFile(filepath.Join(verifDir, "harness", pkg+"_states.go.txt"))
	if err != nil {
		res.Err = "no state generators for package " + pkg
		return res
	}
	tmp, err := os.MkdirTemp("", "xvc-replay-")
	if err != nil {
		res.Err = err.Error()
		return res
	}
	defer os.RemoveAll(tmp)
	ov := map[string]string{}
	write := func(dst, name string, data []byte) {
		p := filepath.Join(tmp, name)
		os.WriteFile(p, data, 0o644)
		ov[dst] = p
	}
	for k, v := range w.Overlay {
		write(k, sanitize(k)+".go", v)
	}
	write(filepath.Join(w.RepoDir, pkg, "xvc_harness_test.go"), "harness_test.go", []byte(src))
	write(filepath.Join(w.RepoDir, pkg, "xvc_states_test.go"), "states_test.go", states)
	ob, _ := json.Marshal(map[string]interface{}{"Replace": ov})
	ovPath := filepath.Join(tmp, "overlay.json")
	os.WriteFile(ovPath, ob, 0o644)
	cmd := exec.Command("go", "test", "-overlay", ovPath, "-tags", "verif", "-vet=off", "-v", "-count=1", "-timeout", "300s", "-run", "^TestXvcBounded$", "./"+pkg)
	cmd.Dir = w.RepoDir
	cmd.Env = append(os.Environ(), "GOFLAGS=-mod=mod", "GOPROXY=off", "GOSUMDB=off", "GOTOOLCHAIN=local", "XVC_TARGET="+target)
	out, _ := cmd.CombinedOutput()
	sawRuns := false
	for _, ln := range strings.Split(string(out), "\n") {
		f := strings.Split(ln, "\t")
		switch {
		case len(f) >= 7 && f[0] == "XVC-FAIL":
			un := func(s string) string {
				var r string
				if _, err := fmt.Sscanf(s, "%q", &r); err == nil {
					return r
				}
				return s
			}
			res.Fails = append(res.Fails, Failure{Fn: f[1], Kind: f[2], Clause: f[3], State: un(f[4]), Args: un(f[5]), Detail: un(f[6])})
		case len(f) >= 3 && f[0] == "XVC-RUNS":
			var n int
			fmt.Sscanf(f[2], "%d", &n)
			res.Runs += n
			sawRuns = true
		}
	}
	if !sawRuns {
		res.Err = "harness did not run: " + firstLines(string(out), 40)
	}
	for _, k := range keys {
		res.Labels = append(res.Labels, w.harnessLabels[k]...)
	}
	return res
}

// tryReplay looks for a concrete pre-state on which the real function violates the clause (or panics).
func tryReplay(w *World, fn, ob string, o *ObResult, rep map[string]interface{}) bool {
	con := w.Contracts[fn]
	if con == nil {
		return false
	}
	harnessMu.Lock()
	r := harnessCache[fn]
	if r == nil {
		r = w.boundedRun(con.Pkg, []string{fn}, fn)
		harnessCache[fn] = r
	}
	harnessMu.Unlock()
	rep["replay_runs"] = r.Runs
	if r.Err != "" {
		rep["replay_error"] = r.Err
		return false
	}
	want := ""
	if strings.HasPrefix(ob, "ensures[") {
		want = ob[len("ensures[") : len(ob)-1]
	}
	for _, f := range r.Fails {
		if (want != "" && f.Kind == "ensures" && f.Clause == want) || (strings.HasPrefix(ob, "safe:") && f.Kind == "panic") {
			rep["replay"] = f
			rep["replay_cmd"] = fmt.Sprintf("/verif/bin/xvc bounded %s", fn)
			return true
		}
	}
	return false
}

var ghostBuiltins = map[string]bool{"fold": true, "foldH": true, "fresh": true, "seen": true, "capturedVar": true, "fnIs": true, "atHead": true, "atEntry": true, "built": true, "iter": true}

// usesGhost: the clause mentions ghost state that the executable form cannot evaluate.
func usesGhost(cl *Clause) bool {
	if cl.Fn == nil {
		return false
	}
	// direct calls of ghost builtins are never executable in a clause; specification functions are looked up in the
	// clause's own package (bare name) or by their qualified name
	pkg := ""
	if cl.Fn.Pkg != nil {
		pkg = cl.Fn.Pkg.Name
	}
	local := map[string]bool{}
	for k := range ghostSpecs {
		local[k] = true
		if strings.HasPrefix(k, pkg+".") {
			local[strings.TrimPrefix(k, pkg+".")] = true
		}
	}
	return bodyUsesGhost(cl.Fn.Decl.Body, local)
}

// ghostSpecs: specification functions (by bare name and by pkg.name) that read ghost state themselves or through other
// specification functions (J, NoFusion, ... are folds over the writer's history): clauses calling them have no
// executable meaning either. Filled once per World by markGhostSpecs.
var ghostSpecs = map[string]bool{}

func bodyUsesGhost(body ast.Node, extra map[string]bool) bool {
	return bodyUsesGhostIn(body, extra, "")
}

// realHelpers: ghost-named helpers (fold, foldH) that a package's contract file implements for real (with a loop over
// the string), e.g. package sourcemap, where the write history can be recovered from the finished string. Specification
// functions built on them are executable; in packages where the helper is an inert stub they are not.
var realHelpers = map[string]bool{}

func bodyUsesGhostIn(body ast.Node, extra map[string]bool, pkg string) bool {
	found := false
	isGhost := func(name string) bool {
		if ghostBuiltins[name] {
			return pkg == "" || !realHelpers[pkg+"."+name]
		}
		return extra[name]
	}
	ast.Inspect(body, func(n ast.Node) bool {
		if ce, ok := n.(*ast.CallExpr); ok {
			switch f := ce.Fun.(type) {
			case *ast.Ident:
				if isGhost(f.Name) {
					found = true
				}
			case *ast.IndexExpr:
				if id, ok := f.X.(*ast.Ident); ok && isGhost(id.Name) {
					found = true
				}
			case *ast.SelectorExpr:
				if id, ok := f.X.(*ast.Ident); ok && extra[id.Name+"."+f.Sel.Name] {
					found = true
				}
			}
		}
		return !found
	})
	return found
}

func (w *World) markGhostSpecs() {
	hasLoop := func(body ast.Node) bool {
		l := false
		ast.Inspect(body, func(n ast.Node) bool {
			switch n.(type) {
			case *ast.ForStmt, *ast.RangeStmt:
				l = true
			}
			return !l
		})
		return l
	}
	for key, sf := range w.SpecDecls {
		if sf.Decl != nil && sf.Decl.Body != nil && ghostBuiltins[sf.Decl.Name.Name] && (hasLoop(sf.Decl.Body) || sf.Decl.Name.Name == "built") {
			realHelpers[key] = true
		}
	}
	for changed := true; changed; {
		changed = false
		for key, sf := range w.SpecDecls {
			if sf.Decl == nil || sf.Decl.Body == nil || ghostBuiltins[sf.Decl.Name.Name] {
				continue
			}
			if ghostSpecs[key] {
				continue
			}
			pkg := key[:strings.Index(key, ".")]
			if bodyUsesGhostIn(sf.Decl.Body, ghostSpecs, pkg) {
				ghostSpecs[key] = true // pkg.name (calls from other packages)
				changed = true
			}
		}
	}
}

func (w *World) harnessStates(pkg string) []byte {
	b, _ := os.ReadFile(filepath.Join(verifDir, "harness", pkg+"_states.go.txt"))
	return b
}

// dropUnusedImports removes imports of the generated harness that no selector expression uses (the import list is
// computed from clause texts, which may mention a package only inside an expression that was not emitted).
func dropUnusedImports(src string) string {
	fset := token.NewFileSet()
	f, err := parser.ParseFile(fset, "harness_test.go", src, parser.ParseComments)
	if err != nil {
		return src
	}
	used := map[string]bool{}
	ast.Inspect(f, func(n ast.Node) bool {
		if se, ok := n.(*ast.SelectorExpr); ok {
			if id, ok := se.X.(*ast.Ident); ok {
				used[id.Name] = true
			}
		}
		return true
	})
	lines := strings.Split(src, "\n")
	out := lines[:0:0]
	inImports := false
	for _, ln := range lines {
		t := strings.TrimSpace(ln)
		if t == "import (" {
			inImports = true
		} else if inImports && t == ")" {
			inImports = false
		} else if inImports && strings.HasPrefix(t, "\"") {
			path := strings.Trim(t, "\"")
			if !used[shortPkg(path)] {
				continue
			}
		}
		out = append(out, ln)
	}
	return strings.Join(out, "\n")
}
