package main

import (
	"flag"
	"fmt"
	"os"
	"runtime"
	"strings"
)

const defaultRepo = "/repo"
const verifDir = "/verif"

func loadWorld(repo string) (*World, error) {
	contracts, overlay, err := readContracts(repo, verifDir+"/contracts")
	if err != nil {
		return nil, err
	}
	w1, err := loadRepo(repo, overlay)
	if err != nil {
		return nil, err
	}
	gen, err := genClauseFiles(w1, contracts)
	if err != nil {
		return nil, err
	}
	for k, v := range gen {
		overlay[k] = v
	}
	w, err := loadRepo(repo, overlay)
	if err != nil {
		// show the generated files to make clause errors readable
		return nil, fmt.Errorf("%v\n(while type-checking generated clause functions)", err)
	}
	if err := attachClauses(w, contracts); err != nil {
		return nil, err
	}
	w.Gen = gen
	return w, nil
}

func main() {
	if len(os.Args) < 2 {
		fmt.Fprintln(os.Stderr, "usage: xvc check <id> [--tier quick|thorough] | fn <key>... | list | gen")
		os.Exit(2)
	}
	cmd := os.Args[1]
	fs := flag.NewFlagSet(cmd, flag.ExitOnError)
	repo := fs.String("repo", defaultRepo, "repository root")
	tier := fs.String("tier", "quick", "quick|thorough")
	keep := fs.String("keep", "", "directory to keep SMT scripts in")
	timeout := fs.Int("timeout", 0, "per-check timeout ms")
	verbose := fs.Bool("v", false, "verbose")
	var pos []string
	args := os.Args[2:]
	// allow flags after positional args
	for len(args) > 0 {
		fs.Parse(args)
		rest := fs.Args()
		if len(rest) == 0 {
			break
		}
		pos = append(pos, rest[0])
		args = rest[1:]
	}
	if t := os.Getenv("VERIF_TIER"); t != "" && *tier == "quick" {
		*tier = t
	}
	opt := Options{TimeoutMS: 10000, Workers: runtime.NumCPU(), KeepDir: *keep, Thorough: *tier == "thorough"}
	if opt.Thorough {
		opt.TimeoutMS = 60000
	}
	if *timeout > 0 {
		opt.TimeoutMS = *timeout
	}
	switch cmd {
	case "gen":
		w, err := loadWorld(*repo)
		if err != nil {
			fmt.Fprintln(os.Stderr, "ENGINE-ERROR:", err)
			os.Exit(2)
		}
		for k, v := range w.Gen {
			fmt.Printf("// ---- %s\n%s\n", k, v)
		}
	case "list":
		w, err := loadWorld(*repo)
		if err != nil {
			fmt.Fprintln(os.Stderr, "ENGINE-ERROR:", err)
			os.Exit(2)
		}
		for _, k := range sortedKeys(w.Funcs) {
			c := ""
			if con := w.Contracts[k]; con != nil {
				c = " [contract: " + strings.Join(con.Props, ",") + "]"
			}
			fmt.Println(k + c)
		}
	case "fn":
		w, err := loadWorld(*repo)
		if err != nil {
			fmt.Fprintln(os.Stderr, "ENGINE-ERROR:", err)
			os.Exit(2)
		}
		bad := false
		for _, k := range pos {
			r := w.verifyFn(k, opt)
			printFnResult(r, *verbose)
			if r.Err != "" {
				bad = true
			}
			for _, o := range r.Obs {
				if o.Status != "proved" {
					bad = true
				}
			}
		}
		if bad {
			os.Exit(1)
		}
	case "loops":
		w, err := loadWorld(*repo)
		if err != nil {
			fmt.Fprintln(os.Stderr, "ENGINE-ERROR:", err)
			os.Exit(2)
		}
		for _, k := range pos {
			f := w.Funcs[k]
			if f == nil {
				fmt.Println("no such function", k)
				continue
			}
			x := &Exec{w: w, cx: newCx(w, false), fn: f, key: k, con: w.Contracts[k]}
			x.findLoops()
			fmt.Println(k)
			for _, li := range x.loops {
				fmt.Printf("  loop %d: header block %d (%s) at %s, %d blocks\n", li.ord, li.header.Index, li.header.Comment, w.Fset.Position(x.blockPos(li)), len(li.blocks))
			}
		}
	case "bounded":
		w, err := loadWorld(*repo)
		if err != nil {
			fmt.Fprintln(os.Stderr, "ENGINE-ERROR:", err)
			os.Exit(2)
		}
		for _, k := range pos {
			con := w.Contracts[k]
			if con == nil {
				fmt.Println("no contract for", k)
				continue
			}
			r := w.boundedRun(con.Pkg, []string{k}, k)
			fmt.Printf("== bounded %s: %d runs, %d failures %s\n", k, r.Runs, len(r.Fails), r.Err)
			for _, f := range r.Fails {
				fmt.Printf("   %s %s: %s | %s | %s\n", f.Kind, f.Clause, f.State, f.Args, f.Detail)
			}
		}
	case "lemma":
		w, err := loadWorld(*repo)
		if err != nil {
			fmt.Fprintln(os.Stderr, "ENGINE-ERROR:", err)
			os.Exit(2)
		}
		if len(pos) == 0 {
			pos = sortedKeys(w.Lemmas)
		}
		for _, k := range pos {
			if w.Lemmas[k] == nil {
				fmt.Println("no such lemma", k)
				continue
			}
			printFnResult(w.verifyLemma(k, opt), *verbose)
		}
	case "check":
		if len(pos) != 1 {
			fmt.Fprintln(os.Stderr, "usage: xvc check <property id>")
			os.Exit(2)
		}
		os.Exit(runCheck(*repo, pos[0], *tier, opt, *verbose))
	default:
		fmt.Fprintln(os.Stderr, "unknown command", cmd)
		os.Exit(2)
	}
}

func printFnResult(r *FnResult, verbose bool) {
	fmt.Printf("== %s  paths=%d  %dms  smt=%dkB mode=%s\n", r.Key, r.Paths, r.WallMS, r.SMTBytes/1024, r.Mode)
	if r.Err != "" {
		fmt.Printf("   ERROR: %s\n", r.Err)
	}
	for _, o := range r.Obs {
		if o.Status == "proved" && !verbose {
			continue
		}
		fmt.Printf("   %-8s %s  (%d inst, %s, %dms) %s\n", o.Status, o.Name, o.Instances, o.Solver, o.TimeMS, o.Detail)
		if o.Status == "refuted" && verbose {
			fmt.Println(indent(trimModel(o.Model), "      "))
		}
	}
	n := 0
	for _, o := range r.Obs {
		if o.Status == "proved" {
			n++
		}
	}
	fmt.Printf("   %d/%d obligations proved\n", n, len(r.Obs))
}

func indent(s, p string) string {
	return p + strings.ReplaceAll(s, "\n", "\n"+p)
}

func trimModel(s string) string {
	if len(s) > 1500 {
		return s[:1500] + "\n..."
	}
	return s
}
