package main

import (
	"sync"
	"flag"
	"fmt"
	"os"
	"path/filepath"
	"regexp"
	"runtime"
	"strconv"
	"strings"
)

const defaultRepo = "/repo"
const verifDir = "/verif"

// loadWorld loads the repository with its contracts. Contracts whose clauses no longer type-check against the
// current tree (a function they name changed shape, a field they mention is gone) are set aside as "broken" instead
// of failing the whole load, so that only the properties those contracts serve are affected.
func loadWorld(repo string) (*World, error) {
	contracts, overlay, err := readContracts(repo, verifDir+"/contracts")
	if err != nil {
		return nil, err
	}
	broken := map[string]*Contract{}
	brokenWhy := map[string]string{}
	for round := 0; ; round++ {
		w, err := tryLoad(repo, contracts, overlay)
		if err == nil {
			w.Broken = broken
			w.BrokenWhy = brokenWhy
			return w, nil
		}
		if round > 12 {
			return nil, err
		}
		le, ok := err.(*loadErr)
		if !ok {
			return nil, err
		}
		progress := false
		// 1. errors inside generated clause functions: drop the contracts they belong to
		for _, k := range le.keys {
			c := contracts[k]
			if c == nil {
				continue
			}
			// drop only the clauses at fault when none of them is a precondition (callers can still use the rest of
			// the contract; the function itself is then checked by the bounded executable stand-in where possible)
			if gens := le.clauses[k]; len(gens) > 0 && c.dropClauses(gens, le.byKey[k]) {
				progress = true
				continue
			}
			broken[k] = c
			brokenWhy[k] = le.msgFor(k)
			delete(contracts, k)
			progress = true
		}
		// 2. contracts naming functions that no longer exist
		for _, k := range le.missing {
			if c := contracts[k]; c != nil {
				broken[k] = c
				brokenWhy[k] = "the function this contract names does not exist in the current tree"
				delete(contracts, k)
				progress = true
			}
		}
		// 3. errors inside a contracts file itself (its spec functions): set the whole package's contracts aside
		for _, pkg := range le.pkgs {
			for k, c := range contracts {
				if c.Pkg == pkg {
					broken[k] = c
					brokenWhy[k] = "the specification functions of package " + pkg + " do not type-check against the current tree: " + le.first
					delete(contracts, k)
					progress = true
				}
			}
			p := filepath.Join(repo, pkg, contractFile)
			overlay[p] = []byte("//go:build verif\n\npackage " + pkg + "\n")
			progress = true
			delete(le.pkgSeen, pkg)
		}
		if !progress {
			return nil, err
		}
	}
}

type loadErr struct {
	text    string
	first   string
	keys    []string
	missing []string
	pkgs    []string
	pkgSeen map[string]bool
	byKey   map[string]string
	clauses map[string][]string // contract key -> generated clause function names at fault
}

func (e *loadErr) Error() string { return e.text }
func (e *loadErr) msgFor(k string) string {
	if m := e.byKey[k]; m != "" {
		return "its clauses do not type-check against the current tree: " + m
	}
	return "its clauses do not type-check against the current tree"
}

var reGenErr = regexp.MustCompile(`([\w./-]+)/(\w+)/(xvc_gen_verif|contracts_verif)\.go:(\d+):\d+: (.*)`)

func tryLoad(repo string, contracts map[string]*Contract, overlay0 map[string][]byte) (*World, error) {
	overlay := map[string][]byte{}
	for k, v := range overlay0 {
		overlay[k] = v
	}
	w1, err := loadRepo(repo, overlay)
	if err != nil {
		return nil, classifyLoadErr(err, nil)
	}
	gen, missing, err := genClauseFiles(w1, contracts)
	if err != nil {
		return nil, err
	}
	if len(missing) > 0 {
		return nil, &loadErr{text: "contracts name functions that do not exist: " + strings.Join(missing, ", "), missing: missing}
	}
	for k, v := range gen {
		overlay[k] = v
	}
	w, err := loadRepo(repo, overlay)
	if err != nil {
		return nil, classifyLoadErr(err, gen)
	}
	if err := attachClauses(w, contracts); err != nil {
		return nil, err
	}
	w.Gen = gen
	return w, nil
}

// classifyLoadErr maps type errors to the contracts (generated clause functions) or packages (contracts files) at fault.
func classifyLoadErr(err error, gen map[string][]byte) error {
	le := &loadErr{text: err.Error() + "\n(while type-checking contracts)", byKey: map[string]string{}, pkgSeen: map[string]bool{}, clauses: map[string][]string{}}
	seenK := map[string]bool{}
	for _, ln := range strings.Split(err.Error(), "\n") {
		m := reGenErr.FindStringSubmatch(ln)
		if m == nil {
			continue
		}
		if le.first == "" {
			le.first = m[5]
		}
		pkg := m[2]
		if m[3] == "contracts_verif" {
			if !le.pkgSeen[pkg] {
				le.pkgSeen[pkg] = true
				le.pkgs = append(le.pkgs, pkg)
			}
			continue
		}
		line, _ := strconv.Atoi(m[4])
		for path, src := range gen {
			if !strings.HasSuffix(path, "/"+pkg+"/"+genFile) {
				continue
			}
			lines := strings.Split(string(src), "\n")
			gen := ""
			for i := line - 1; i >= 0 && i < len(lines); i-- {
				if gen == "" && strings.HasPrefix(lines[i], "func xvcc_") {
					gen = lines[i][len("func "):]
					if j := strings.Index(gen, "("); j >= 0 {
						gen = gen[:j]
					}
				}
				if strings.HasPrefix(lines[i], "// @key ") {
					k := strings.TrimPrefix(lines[i], "// @key ")
					if !seenK[k] {
						seenK[k] = true
						le.keys = append(le.keys, k)
						le.byKey[k] = m[5]
					}
					if gen != "" {
						le.clauses[k] = append(le.clauses[k], gen)
					}
					break
				}
			}
		}
	}
	if len(le.keys) == 0 && len(le.pkgs) == 0 {
		return err
	}
	return le
}

func main() {
	if len(os.Args) < 2 {
		fmt.Fprintln(os.Stderr, "usage: xvc check <id> [--tier quick|thorough] | fn <key>... | list | gen")
		os.Exit(2)
	}
	cmd := os.Args[1]
	fs := flag.NewFlagSet(cmd, flag.ExitOnError)
	repo := fs.String("repo", defaultRepo, "repository root")
	tier := fs.String("tier", "quick", "quick|thorough")
	keep := fs.String("keep", "", "directory to keep SMT scripts in")
	timeout := fs.Int("timeout", 0, "per-check timeout ms")
	verbose := fs.Bool("v", false, "verbose")
	var pos []string
	args := os.Args[2:]
	// allow flags after positional args
	for len(args) > 0 {
		fs.Parse(args)
		rest := fs.Args()
		if len(rest) == 0 {
			break
		}
		pos = append(pos, rest[0])
		args = rest[1:]
	}
	if t := os.Getenv("VERIF_TIER"); t != "" && *tier == "quick" {
		*tier = t
	}
	opt := Options{TimeoutMS: 20000, Workers: runtime.NumCPU(), KeepDir: *keep, Thorough: *tier == "thorough"}
	if opt.Thorough {
		opt.TimeoutMS = 90000
	}
	if *timeout > 0 {
		opt.TimeoutMS = *timeout
	}
	switch cmd {
	case "gen":
		w, err := loadWorld(*repo)
		if err != nil {
			fmt.Fprintln(os.Stderr, "ENGINE-ERROR:", err)
			os.Exit(2)
		}
		for k, v := range w.Gen {
			fmt.Printf("// ---- %s\n%s\n", k, v)
		}
	case "list":
		w, err := loadWorld(*repo)
		if err != nil {
			fmt.Fprintln(os.Stderr, "ENGINE-ERROR:", err)
			os.Exit(2)
		}
		for _, k := range sortedKeys(w.Funcs) {
			c := ""
			if con := w.Contracts[k]; con != nil {
				c = " [contract: " + strings.Join(con.Props, ",") + "]"
			}
			fmt.Println(k + c)
		}
	case "vacuity":
		// every labelled clause of every unit under contract must give rise to at least one obligation: a clause that never
		// generates one is as good as absent (DESIGN 9, "call-site obligations were skipped ...")
		w, err := loadWorld(*repo)
		if err != nil {
			fmt.Fprintln(os.Stderr, "ENGINE-ERROR:", err)
			os.Exit(2)
		}
		var keys []string
		for _, k := range sortedKeys(w.Contracts) {
			con := w.Contracts[k]
			if con.Abstract || con.Trusted || w.Funcs[k] == nil {
				continue
			}
			keys = append(keys, k)
		}
		results := make([]*FnResult, len(keys))
		var wg sync.WaitGroup
		sem := make(chan struct{}, 8)
		solverSem = make(chan struct{}, opt.Workers)
		for i, k := range keys {
			wg.Add(1)
			sem <- struct{}{}
			go func(i int, k string) {
				defer wg.Done()
				defer func() { <-sem }()
				results[i] = w.verifyFn(k, opt)
			}(i, k)
		}
		wg.Wait()
		silent := 0
		for i, k := range keys {
			con := w.Contracts[k]
			names := []string{}
			for _, o := range results[i].Obs {
				names = append(names, o.Name)
			}
			all := strings.Join(names, "\n")
			miss := func(kind string, cl *Clause) {
				if cl == nil || cl.Label == "" || cl.Assumed || cl.Def || cl.Ranked || cl.BoundedOnly {
					return
				}
				if !strings.Contains(all, "["+cl.Label+"]") {
					silent++
					fmt.Printf("SILENT %s %s[%s] (group %q)\n", k, kind, cl.Label, cl.Group)
				}
			}
			for _, cl := range con.Ensures {
				miss("ensures", cl)
			}
			for _, cl := range con.AtCalls {
				miss("atcall "+cl.Callee, cl)
			}
			for n, l := range con.Loops {
				for _, cl := range l.Before {
					miss(fmt.Sprintf("loop %d before", n), cl)
				}
				for _, cl := range l.Each {
					miss(fmt.Sprintf("loop %d each", n), cl)
				}
				for _, cl := range l.Invariants {
					miss(fmt.Sprintf("loop %d invariant", n), cl)
				}
			}
		}
		fmt.Printf("vacuity: %d units, %d labelled clauses without obligation\n", len(keys), silent)
		if silent > 0 {
			os.Exit(1)
		}
	case "fn":
		w, err := loadWorld(*repo)
		if err != nil {
			fmt.Fprintln(os.Stderr, "ENGINE-ERROR:", err)
			os.Exit(2)
		}
		bad := false
		for _, k := range sortedKeys(w.BrokenWhy) {
			fmt.Printf("BROKEN CONTRACT %s: %s\n", k, w.BrokenWhy[k])
		}
		for _, k := range pos {
			r := w.verifyFn(k, opt)
			printFnResult(r, *verbose)
			if r.Err != "" {
				bad = true
			}
			for _, o := range r.Obs {
				if o.Status != "proved" {
					bad = true
				}
			}
		}
		if bad {
			os.Exit(1)
		}
	case "headers":
		// canonical contract headers with positional parameter names (used once to make headers rename-proof)
		w, err := loadWorld(*repo)
		if err != nil {
			fmt.Fprintln(os.Stderr, "ENGINE-ERROR:", err)
			os.Exit(2)
		}
		for _, k := range sortedKeys(w.Contracts) {
			f := w.Funcs[k]
			if f == nil {
				continue
			}
			var ns []string
			for i, p := range f.Params {
				if i == 0 && f.Signature.Recv() != nil {
					continue
				}
				ns = append(ns, p.Name())
			}
			fmt.Printf("%s\t(%s)\n", k, strings.Join(ns, ", "))
		}
	case "loops":
		w, err := loadWorld(*repo)
		if err != nil {
			fmt.Fprintln(os.Stderr, "ENGINE-ERROR:", err)
			os.Exit(2)
		}
		for _, k := range pos {
			f := w.Funcs[k]
			if f == nil {
				fmt.Println("no such function", k)
				continue
			}
			x := &Exec{w: w, cx: newCx(w, false), fn: f, key: k, con: w.Contracts[k]}
			x.findLoops()
			fmt.Println(k)
			for _, li := range x.loops {
				fmt.Printf("  loop %d: header block %d (%s) at %s, %d blocks\n", li.ord, li.header.Index, li.header.Comment, w.Fset.Position(x.blockPos(li)), len(li.blocks))
			}
		}
	case "bounded":
		w, err := loadWorld(*repo)
		if err != nil {
			fmt.Fprintln(os.Stderr, "ENGINE-ERROR:", err)
			os.Exit(2)
		}
		for _, k := range pos {
			con := w.Contracts[k]
			if con == nil {
				fmt.Println("no contract for", k)
				continue
			}
			r := w.boundedRun(con.Pkg, []string{k}, k)
			fmt.Printf("== bounded %s: %d runs, %d failures %s\n", k, r.Runs, len(r.Fails), r.Err)
			for _, f := range r.Fails {
				fmt.Printf("   %s %s: %s | %s | %s\n", f.Kind, f.Clause, f.State, f.Args, f.Detail)
			}
		}
	case "lemma":
		w, err := loadWorld(*repo)
		if err != nil {
			fmt.Fprintln(os.Stderr, "ENGINE-ERROR:", err)
			os.Exit(2)
		}
		if len(pos) == 0 {
			pos = sortedKeys(w.Lemmas)
		}
		for _, k := range pos {
			if w.Lemmas[k] == nil {
				fmt.Println("no such lemma", k)
				continue
			}
			printFnResult(w.verifyLemma(k, opt), *verbose)
		}
	case "check":
		if len(pos) != 1 {
			fmt.Fprintln(os.Stderr, "usage: xvc check <property id>")
			os.Exit(2)
		}
		os.Exit(runCheck(*repo, pos[0], *tier, opt, *verbose))
	default:
		fmt.Fprintln(os.Stderr, "unknown command", cmd)
		os.Exit(2)
	}
}

func printFnResult(r *FnResult, verbose bool) {
	fmt.Printf("== %s  paths=%d  %dms  smt=%dkB mode=%s\n", r.Key, r.Paths, r.WallMS, r.SMTBytes/1024, r.Mode)
	if r.Err != "" {
		fmt.Printf("   ERROR: %s\n", r.Err)
	}
	for _, o := range r.Obs {
		if o.Status == "proved" && !verbose {
			continue
		}
		fmt.Printf("   %-8s %s  (%d inst, %s, %dms) %s\n", o.Status, o.Name, o.Instances, o.Solver, o.TimeMS, o.Detail)
		if o.Status == "refuted" && verbose {
			fmt.Println(indent(trimModel(o.Model), "      "))
		}
	}
	n := 0
	for _, o := range r.Obs {
		if o.Status == "proved" {
			n++
		}
	}
	fmt.Printf("   %d/%d obligations proved\n", n, len(r.Obs))
}

func indent(s, p string) string {
	return p + strings.ReplaceAll(s, "\n", "\n"+p)
}

func trimModel(s string) string {
	if len(s) > 1500 {
		return s[:1500] + "\n..."
	}
	return s
}
