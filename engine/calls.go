package main

import (
	"sort"
	"fmt"
	"go/ast"
	"go/types"
	"strings"

	"golang.org/x/tools/go/ssa"
)

func (x *Exec) doCall(st *State, ins *ssa.Call, site string) {
	var args []Val
	for _, a := range ins.Call.Args {
		v := x.val(st, a)
		if v.A != nil && v.S == "" && v.A.Kind == aHeapField && len(v.A.Path) == 0 && !isBuilder(v.A.Elem) {
			// a pointer into a struct-valued field handed to a callee (&c.opts): modelled as a pointer to a separate,
			// non-nil object (DESIGN 7: the taking function has an open frame; nothing is claimed about its exit state)
			ip := x.declConst(st, "ip", x.cx.intSort())
			x.assume(st, fmt.Sprintf("(not (= %s %s))", ip, x.cx.num(0)))
			x.notes = append(x.notes, "interior pointer passed to a callee at "+site+": treated as a separate object")
			v = Val{S: ip, T: v.T}
		}
		args = append(args, v)
	}
	x.callCommon(st, ins, &ins.Call, args, nil, site, false)
}

// callCommon performs a call. ret is the instruction receiving the result (nil for deferred calls).
// For deferred calls the current instruction (RunDefers) is re-executed afterwards (resume=true).
func (x *Exec) callCommon(st *State, ret *ssa.Call, cc *ssa.CallCommon, args []Val, fnv *Val, site string, resume bool) {
	fr := st.top()
	setResult := func(v Val) {
		if ret != nil {
			fr.regs[ret] = v
		}
		if !resume {
			fr.idx++
		}
	}
	if cc.IsInvoke() {
		recv := x.val(st, cc.Value)
		x.callInterface(st, cc, recv, args, setResult, site)
		return
	}
	switch callee := cc.Value.(type) {
	case *ssa.Builtin:
		setResult(x.builtin(st, callee.Name(), cc, args, site))
		return
	case *ssa.Function:
		x.callStatic(st, ret, callee, args, nil, setResult, site, resume)
		return
	case *ssa.MakeClosure:
		f := callee.Fn.(*ssa.Function)
		var binds []Val
		for _, b := range callee.Bindings {
			binds = append(binds, x.val(st, b))
		}
		x.callStatic(st, ret, f, args, binds, setResult, site, resume)
		return
	}
	// call through a function value
	var fv Val
	if fnv != nil && fnv.S != "" {
		fv = *fnv
	} else {
		fv = x.val(st, cc.Value)
	}
	x.callFuncValue(st, cc, fv, args, setResult, site)
}

func (x *Exec) callStatic(st *State, ret *ssa.Call, callee *ssa.Function, args []Val, binds []Val, setResult func(Val), site string, resume bool) {
	pkg := x.w.pkgOfFn(callee)
	key := fnKey(pkg, callee)
	if isBuilderMethod(callee) {
		setResult(x.builderCall(st, callee.Name(), args, site))
		return
	}
	if callee.Name() == "init" && callee.Signature.Recv() == nil && callee.Synthetic != "" {
		// initialisation of an imported package: its effects are confined to its own globals
		setResult(Val{})
		return
	}
	if !isRepoFn(callee) {
		full := callee.String()
		if i := strings.Index(full, "["); i >= 0 {
			full = full[:i]
		}
		x.traceCall(st, full, append([]Val{{}}, args...), site) // args[0] is kept free so that indices match method-style events
		rv := x.stdlib(st, callee, args, site)
		if n := len(st.trace); n > 0 && st.trace[n-1].name == full {
			st.trace[n-1].res = rv
			st.trace[n-1].args = args
		}
		setResult(rv)
		return
	}
	if con := x.w.Contracts[key]; con != nil && !con.Inline {
		if con.SameAs != "" {
			if t := x.w.Contracts[con.SameAs]; t != nil && x.w.Funcs[con.SameAs] != nil {
				setResult(x.callContract(st, t, x.w.Funcs[con.SameAs], args, nil, site))
				return
			}
		}
		setResult(x.callContract(st, con, callee, args, binds, site))
		return
	}
	// inline
	if callee.Blocks == nil {
		panic(unsupported("call of function without body: " + key))
	}
	for _, f := range st.frames {
		if f.fn == callee {
			panic(unsupported("recursive inlining of " + key + " (give it a contract)"))
		}
	}
	if len(st.frames) > 6 {
		panic(unsupported("inlining too deep at " + key))
	}
	nf := &frame{fn: callee, regs: map[ssa.Value]Val{}, cells: map[*ssa.Alloc]string{}, block: callee.Blocks[0], visits: map[int]int{}, variant: map[int]string{}, resume: resume}
	if ret != nil {
		nf.retInto = ret
	}
	for i, p := range callee.Params {
		nf.regs[p] = args[i]
	}
	for i, fv := range callee.FreeVars {
		if i < len(binds) {
			nf.regs[fv] = binds[i]
		}
	}
	st.frames = append(st.frames, nf)
}

// callContract: assert requires, havoc modifies, assume ensures.
func (x *Exec) callContract(st *State, con *Contract, callee *ssa.Function, args []Val, binds []Val, site string) Val {
	cx := x.cx
	vars := map[string]Val{}
	for i, fv := range callee.FreeVars {
		if i < len(binds) {
			a := x.addrOf(st, binds[i], site)
			vars[fv.Name()] = x.loadAddr(st, a)
		}
	}
	cpn := paramNames(callee, x.w.Contracts[fnKey(x.w.pkgOfFn(callee), callee)])
	for i, p := range callee.Params {
		if i < len(args) {
			vars[p.Name()] = args[i]
			vars[cpn[i]] = args[i]
		}
	}
	short := con.Key[strings.Index(con.Key, ".")+1:]
	st.callSeq[short]++
	seq := st.callSeq[short]
	x.traceEvent(st, short, args, vars, site)
	x.atCallChecks(st, short, seq, vars, site, con)
	if x.thorough {
		st.script = append(st.script, entry{kind: 'v', name: fmt.Sprintf("cover:before %s#%d@%s", short, seq, site)})
	}
	// receiver non-nil
	if callee.Signature.Recv() != nil && len(args) > 0 {
		if _, ok := args[0].T.Underlying().(*types.Pointer); ok && args[0].A == nil {
			x.nilCheck(st, args[0].S, site)
		}
	}
	pre := x.envFor(st, nil, con.Pkg, vars)
	for i, cl := range con.Requires {
		if cl.Assumed {
			continue
		}
		lab := cl.Label
		if lab == "" {
			lab = fmt.Sprintf("%d", i+1)
		}
		g := x.clauseTerm(st, cl, pre)
		x.check(st, fmt.Sprintf("requires@%s#%d[%s]", short, seq, lab), g, site)
	}
	// snapshot of the pre-state heap for old()
	preHeap := map[string]string{}
	for k, v := range st.heap {
		preHeap[k] = v
	}
	oldEnv := &Env{cx: cx, vars: vars, heap: func(key string) string {
		if n, ok := preHeap[key]; ok {
			return n
		}
		// key first touched after the call: unchanged by construction unless havocked below (then recorded before havoc)
		return x.heapName(st, key)
	}}
	// havoc modifies
	mods := x.evalModifies(st, con, callee, vars, site)
	for _, m := range mods {
		preHeap[m.key] = x.heapName(st, m.key)
	}
	for _, m := range mods {
		// the callee's effects must lie within the caller's frame (a location reached through a nil pointer does not exist)
		x.frameCheckNilOK(st, m.key, m.ptr, site)
		n := x.declConst(st, "hv", cx.heapSort[m.key])
		x.heapSet(st, m.key, m.ptr, n)
	}
	// results
	res := callee.Signature.Results()
	var rv Val
	var rvals []Val
	for i := 0; i < res.Len(); i++ {
		t := res.At(i).Type()
		n := x.declConst(st, "r_"+sanitize(callee.Name()), cx.sortOf(t))
		x.typeFacts(st, n, t, 0)
		rvals = append(rvals, Val{S: n, T: t})
		if pt, ok := t.Underlying().(*types.Pointer); ok {
			x.notePtr(st, structName(pt.Elem()), n)
		}
	}
	switch len(rvals) {
	case 0:
		rv = Val{}
	case 1:
		rv = rvals[0]
	default:
		rv = Val{Tuple: rvals, T: res}
	}
	post := map[string]Val{}
	for k, v := range vars {
		post[k] = v
	}
	for i, r := range rvals {
		n := "result"
		if len(rvals) > 1 {
			n = fmt.Sprintf("result%d", i)
		}
		post[n] = r
	}
	env := x.envFor(st, nil, con.Pkg, post)
	env.old = oldEnv
	var freshNew []string
	env.fresh = func(term string) string {
		// an object allocated by the callee differs from nil and from every pointer the caller has seen so far
		cs := []string{fmt.Sprintf("(not (= %s %s))", term, cx.num(0))}
		for _, g := range sortedKeys(st.ptrs) {
			for _, q := range st.ptrs[g] {
				if q != term {
					cs = append(cs, fmt.Sprintf("(not (= %s %s))", term, q))
				}
			}
		}
		// remember it as an object this activation owns (it may be written without a modifies entry)
		nm := x.declConst(st, "fr", cx.intSort())
		cs = append(cs, fmt.Sprintf("(= %s %s)", nm, term))
		freshNew = append(freshNew, nm)
		return "(and " + strings.Join(cs, " ") + ")"
	}
	for _, cl := range con.Ensures {
		if cl.BoundedOnly {
			continue // never proved, hence never assumed
		}
		if usesTrace(cl) {
			// a clause about the callee's own ghost call trace says nothing a caller can use (and must not be evaluated
			// over the caller's trace)
			continue
		}
		x.assume(st, x.clauseTerm(st, cl, env))
	}
	for _, nm := range freshNew {
		st.fresh[nm] = true
		st.ptrs["fresh"] = append(st.ptrs["fresh"], nm)
	}
	if n := len(st.trace); n > 0 && st.trace[n-1].name == short {
		st.trace[n-1].res = rv
	}
	x.havocSharedCaptures(st)
	if x.thorough {
		// vacuity guard (thorough tier): the callee's postconditions must not make the path contradictory; flagged only
		// if the state after this call is unsatisfiable on every path that reaches it
		st.script = append(st.script, entry{kind: 'v', name: fmt.Sprintf("cover:after %s#%d@%s", short, seq, site)})
	}
	return rv
}

// modifies ---------------------------------------------------------------------------------

// evalModifies evaluates the modifies entries of a contract in the current state.
func (x *Exec) evalModifies(st *State, con *Contract, callee *ssa.Function, vars map[string]Val, site string) []modEntry {
	var out []modEntry
	for _, m := range con.Modifies {
		out = append(out, x.evalMod(st, m, vars, con)...)
	}
	return out
}

func (x *Exec) evalMod(st *State, m string, vars map[string]Val, con *Contract) []modEntry {
	cx := x.cx
	parts := strings.Split(m, ".")
	base, ok := vars[parts[0]]
	if !ok {
		panic(unsupported(fmt.Sprintf("%s:%d: modifies: unknown variable %s", con.File, con.Line, parts[0])))
	}
	cur := base
	env := x.envFor(st, nil, con.Pkg, vars)
	for i := 1; i < len(parts); i++ {
		p := parts[i]
		last := i == len(parts)-1
		pt, isPtr := cur.T.Underlying().(*types.Pointer)
		if !isPtr {
			panic(unsupported(fmt.Sprintf("%s:%d: modifies %s: %s is not a pointer", con.File, con.Line, m, strings.Join(parts[:i], "."))))
		}
		stt, isStruct := pt.Elem().Underlying().(*types.Struct)
		if !isStruct {
			panic(unsupported(fmt.Sprintf("%s:%d: modifies %s: not a struct", con.File, con.Line, m)))
		}
		if p == "*" {
			var out []modEntry
			for j := 0; j < stt.NumFields(); j++ {
				k, _ := cx.fieldKey(pt.Elem(), j)
				out = append(out, modEntry{key: k, ptr: cur.S})
			}
			return out
		}
		mapAll := false
		if strings.HasSuffix(p, "[*]") {
			mapAll = true
			p = strings.TrimSuffix(p, "[*]")
		}
		fi := fieldIndex(stt, p)
		if fi < 0 {
			panic(unsupported(fmt.Sprintf("%s:%d: modifies %s: no field %s", con.File, con.Line, m, p)))
		}
		k, ft := cx.fieldKey(pt.Elem(), fi)
		if last && !mapAll {
			return []modEntry{{key: k, ptr: cur.S}}
		}
		nv := Val{S: fmt.Sprintf("(select %s %s)", env.heap(k), cur.S), T: ft}
		if i > 1 {
			// reached through a pointer field that may be nil: nothing is reachable through nil
			if _, isRef := ft.Underlying().(*types.Pointer); isRef {
				nv.S = fmt.Sprintf("(ite (= %s %s) %s %s)", cur.S, cx.num(0), cx.num(0), nv.S)
			} else if _, isMap := ft.Underlying().(*types.Map); isMap {
				nv.S = fmt.Sprintf("(ite (= %s %s) %s %s)", cur.S, cx.num(0), cx.num(0), nv.S)
			}
		}
		if mapAll {
			mt, ok := ft.Underlying().(*types.Map)
			if !ok {
				panic(unsupported(fmt.Sprintf("%s:%d: modifies %s: [*] needs a map field", con.File, con.Line, m)))
			}
			kv, kh := cx.mapKeys(mt)
			return []modEntry{{key: kv, ptr: nv.S}, {key: kh, ptr: nv.S}}
		}
		cur = nv
	}
	panic(unsupported(fmt.Sprintf("%s:%d: modifies %s: names a variable, not a location", con.File, con.Line, m)))
}

// modKeys: static over-approximation of the heap keys a modifies entry touches (for loop havoc).
func (x *Exec) modKeys(callee *ssa.Function, m string, keys map[string]bool) {
	cx := x.cx
	parts := strings.Split(m, ".")
	var cur types.Type
	cpn := paramNames(callee, x.w.Contracts[fnKey(x.w.pkgOfFn(callee), callee)])
	for i, p := range callee.Params {
		if p.Name() == parts[0] || cpn[i] == parts[0] {
			cur = p.Type()
		}
	}
	for _, fv := range callee.FreeVars {
		if fv.Name() == parts[0] {
			cur = fv.Type().(*types.Pointer).Elem()
		}
	}
	if cur == nil {
		panic(unsupported("modifies: unknown variable " + parts[0] + " in " + callee.Name()))
	}
	for i := 1; i < len(parts); i++ {
		p := parts[i]
		pt, ok := cur.Underlying().(*types.Pointer)
		if !ok {
			panic(unsupported("modifies: not a pointer: " + m))
		}
		stt := pt.Elem().Underlying().(*types.Struct)
		if p == "*" {
			for j := 0; j < stt.NumFields(); j++ {
				k, _ := cx.fieldKey(pt.Elem(), j)
				keys[k] = true
			}
			return
		}
		mapAll := strings.HasSuffix(p, "[*]")
		p = strings.TrimSuffix(p, "[*]")
		fi := fieldIndex(stt, p)
		if fi < 0 {
			panic(unsupported("modifies: no field " + p))
		}
		k, ft := cx.fieldKey(pt.Elem(), fi)
		if mapAll {
			kv, kh := cx.mapKeys(ft.Underlying().(*types.Map))
			keys[kv] = true
			keys[kh] = true
			return
		}
		if i == len(parts)-1 {
			keys[k] = true
			return
		}
		cur = ft
	}
}

func (x *Exec) typeContractMods(f *ssa.Function, cc *ssa.CallCommon, keys map[string]bool) {
	if cc.IsInvoke() && cc.Method.Pkg() != nil {
		slot := ifaceSlots[cc.Method.Pkg().Name()+"."+cc.Method.Name()]
		if con, callee := x.w.Contracts[slot], x.w.Funcs[slot]; con != nil && callee != nil {
			for _, m := range con.Modifies {
				x.modKeys(callee, m, keys)
			}
			return
		}
	}
	if !cc.IsInvoke() {
		pv := x.prov(f, cc.Value, 0)
		switch pv.key {
		case "passthrough", "callback":
			// the effects are those of the function literals handed over, which the loop scan visits as anonymous functions
			return
		case "":
		default:
			if con, callee := x.w.Contracts[pv.key], x.w.Funcs[pv.key]; con != nil && callee != nil {
				for _, m := range con.Modifies {
					x.modKeys(callee, m, keys)
				}
				return
			}
		}
	}
	panic(unsupported("call through interface / function value inside a loop needs a type contract"))
}

// callInterface: a dynamically dispatched method call uses the interface method's type contract (ifacecontract); every
// implementation inside the repository is checked to conform to it (implObligations), foreign ones are assumed to.
func (x *Exec) callInterface(st *State, cc *ssa.CallCommon, recv Val, args []Val, setResult func(Val), site string) {
	cx := x.cx
	mk := ""
	if cc.Method.Pkg() != nil {
		mk = cc.Method.Pkg().Name() + "." + cc.Method.Name()
	}
	slot := ifaceSlots[mk]
	con, fn := x.w.Contracts[slot], x.w.Funcs[slot]
	if slot == "" || con == nil || fn == nil {
		panic(unsupported("interface method call " + cc.Method.Name() + " at " + site + " (declare an ifacecontract)"))
	}
	x.check(st, "safe:nil@"+site, fmt.Sprintf("(not (= (if_tag %s) %s))", recv.S, cx.num(0)), site)
	setResult(x.callContract(st, con, fn, append([]Val{recv}, args...), nil, site))
}

func (x *Exec) callFuncValue(st *State, cc *ssa.CallCommon, fv Val, args []Val, setResult func(Val), site string) {
	pv := x.prov(st.top().fn, cc.Value, 0)
	k := pv.key
	if k == "" {
		panic(unsupported("call through a function value of unknown contract at " + site + " (declare a fieldcontract / funcvar)"))
	}
	if k == "passthrough" {
		// plugin interceptor hypothesis (property C04): interceptor(x, next) behaves exactly like next()
		if len(cc.Args) < 2 {
			panic(unsupported("passthrough call needs (subject, next)"))
		}
		mc, ok := cc.Args[len(cc.Args)-1].(*ssa.MakeClosure)
		if !ok {
			panic(unsupported("passthrough call whose next argument is not a function literal at " + site))
		}
		var binds []Val
		for _, b := range mc.Bindings {
			binds = append(binds, x.val(st, b))
		}
		fr := st.top()
		var ret *ssa.Call
		if c, isCall := fr.block.Instrs[fr.idx].(*ssa.Call); isCall {
			ret = c
		}
		x.traceCall(st, "passthrough:"+paramNameOf(cc.Value), args, site)
		x.callStatic(st, ret, mc.Fn.(*ssa.Function), nil, binds, setResult, site, ret == nil)
		return
	}
	if k == "callback" {
		x.callCallback(st, cc, args, setResult, site)
		return
	}
	con := x.w.Contracts[k]
	callee := x.w.Funcs[k]
	if con == nil || callee == nil {
		panic(unsupported("contract " + k + " named by a fieldcontract/funcvar does not exist"))
	}
	if pv.owner != nil {
		ov := x.val(st, pv.owner)
		args = append([]Val{ov}, args...)
	}
	// calls through a function variable of a unit that declares `norank` (wrapper literals calling the previous link of a
	// finite chain) are exempt from the termination obligation: a hypothesis, listed in the evidence
	if n := paramNameOf(cc.Value); n != "?" && x.con != nil && (x.con.NoRank[n] || x.con.NoRank["*"]) {
		x.noRankCall = true
		defer func() { x.noRankCall = false }()
	}
	setResult(x.callContract(st, con, callee, args, nil, site))
}

func paramNameOf(v ssa.Value) string {
	switch v := v.(type) {
	case *ssa.Parameter:
		return v.Name()
	case *ssa.FreeVar:
		return v.Name()
	case *ssa.UnOp:
		switch a := v.X.(type) {
		case *ssa.FreeVar:
			return a.Name()
		case *ssa.Alloc:
			return a.Comment
		}
	}
	return "?"
}

// callCallback: a call of a plugin-supplied constructor callback (createExpr). Hypothesis (listed in the evidence): the
// callback affects verified state only by invoking the function values it is handed, any number of times. Every
// function-typed argument must be a closure whose contract consists of clause groups declared transitive (and proved
// reflexive/transitive by the lemma functions of the contracts file); its requires are checked here, its modifies are
// havocked and the group clauses that do not mention the result are assumed. The callback's own result is arbitrary.
func (x *Exec) callCallback(st *State, cc *ssa.CallCommon, args []Val, setResult func(Val), site string) {
	cx := x.cx
	x.traceCall(st, "callback:"+paramNameOf(cc.Value), args, site)
	fr := st.top()
	for i, a := range cc.Args {
		if _, isFn := a.Type().Underlying().(*types.Signature); !isFn {
			continue
		}
		var mc *ssa.MakeClosure
		switch v := a.(type) {
		case *ssa.MakeClosure:
			mc = v
		case *ssa.UnOp:
			// local variable holding the closure: right := func() {...}
			if al, ok := v.X.(*ssa.Alloc); ok {
				for _, ref := range *al.Referrers() {
					if s, ok := ref.(*ssa.Store); ok && s.Addr == al {
						if m, ok := s.Val.(*ssa.MakeClosure); ok && mc == nil {
							mc = m
						} else {
							mc = nil
							break
						}
					}
				}
			}
		}
		if mc == nil {
			panic(unsupported("callback argument that is not a function literal at " + site))
		}
		f := mc.Fn.(*ssa.Function)
		key := fnKey(x.w.pkgOfFn(f), f)
		con := x.w.Contracts[key]
		if con == nil {
			panic(unsupported("function literal " + key + " handed to a callback needs a contract"))
		}
		for _, cl := range con.Requires {
			if cl.Group == "" || !transGroups[con.Pkg+"."+cl.Group] {
				panic(unsupported("function literal " + key + " handed to a callback must only use transitive clause groups (requires)"))
			}
		}
		var binds []Val
		for _, b := range mc.Bindings {
			binds = append(binds, x.val(st, b))
		}
		// one abstract invocation with only the transitive group clauses (no result clauses, which are per call)
		eff := *con
		eff.Ensures = nil
		for _, cl := range con.Ensures {
			if cl.Group != "" && transGroups[con.Pkg+"."+cl.Group] && !mentionsResult(cl.Text) {
				eff.Ensures = append(eff.Ensures, cl)
			}
		}
		_ = i
		x.callContract(st, &eff, f, nil, binds, site+"/thunk")
	}
	// result of the callback: arbitrary
	res := cc.Signature().Results()
	var rvals []Val
	for i := 0; i < res.Len(); i++ {
		t := res.At(i).Type()
		n := x.declConst(st, "cb", cx.sortOf(t))
		x.typeFacts(st, n, t, 0)
		// hypothesis on plugin constructor callbacks: they return a node (never nil, never a typed nil)
		switch t.Underlying().(type) {
		case *types.Interface:
			x.assume(st, fmt.Sprintf("(and (not (= (if_tag %s) %s)) (not (= (if_val %s) %s)))", n, cx.num(0), n, cx.num(0)))
		case *types.Pointer:
			x.assume(st, fmt.Sprintf("(not (= %s %s))", n, cx.num(0)))
		}
		rvals = append(rvals, Val{S: n, T: t})
	}
	_ = fr
	switch len(rvals) {
	case 0:
		setResult(Val{})
	case 1:
		setResult(rvals[0])
	default:
		setResult(Val{Tuple: rvals, T: res})
	}
}

func mentionsResult(s string) bool {
	for i := 0; i+6 <= len(s); i++ {
		if s[i:i+6] == "result" {
			if i > 0 && (isIdentByte(s[i-1])) {
				continue
			}
			return true
		}
	}
	return false
}

func isIdentByte(c byte) bool {
	return c == '_' || c >= 'a' && c <= 'z' || c >= 'A' && c <= 'Z' || c >= '0' && c <= '9'
}

// provInfo: the contract a function value is known to satisfy, from where it comes from (key "" = unknown), and for
// owner-bound slots the SSA value of the object that owns the slot.
type provInfo struct {
	key   string
	owner ssa.Value
}

// funcVarKey resolves the contract a function-typed variable (parameter, captured variable, named local) of unit g obeys:
// by the name given in a `funcvar` directive of g's contract, and -- so that a consistent renaming of such a variable
// does not invalidate the contract -- otherwise by type: a directive whose name matches no variable of g is taken to
// speak about the one function-typed parameter / captured variable of g that no directive names and whose signature fits
// the named contract (for passthrough/callback: the only one left).
func (x *Exec) funcVarKey(g *ssa.Function, con *Contract, name string) string {
	if con == nil || con.FuncVars == nil {
		return ""
	}
	if k := con.FuncVars[name]; k != "" {
		return k
	}
	if g == nil {
		return ""
	}
	type cand struct {
		name string
		sig  *types.Signature
	}
	var actual []cand
	seen := map[string]bool{}
	add := func(n string, t types.Type) {
		if p, ok := t.(*types.Pointer); ok {
			t = p.Elem()
		}
		sg, ok := t.Underlying().(*types.Signature)
		if !ok || seen[n] {
			return
		}
		seen[n] = true
		if _, named := con.FuncVars[n]; !named {
			actual = append(actual, cand{n, sg})
		}
	}
	for _, p := range g.Params {
		add(p.Name(), p.Type())
	}
	for _, fv := range g.FreeVars {
		add(fv.Name(), fv.Type())
	}
	var dangling []string
	for d := range con.FuncVars {
		if !seen[d] {
			dangling = append(dangling, d)
		}
	}
	sort.Strings(dangling)
	fits := func(d string, c cand) bool {
		k := con.FuncVars[d]
		if k == "passthrough" || k == "callback" {
			return true
		}
		sf := x.w.Funcs[k]
		if sf == nil {
			return false
		}
		want := sf.Signature
		if want.Params().Len() != c.sig.Params().Len() || want.Results().Len() != c.sig.Results().Len() {
			return false
		}
		for i := 0; i < want.Params().Len(); i++ {
			if !types.Identical(want.Params().At(i).Type(), c.sig.Params().At(i).Type()) {
				return false
			}
		}
		for i := 0; i < want.Results().Len(); i++ {
			if !types.Identical(want.Results().At(i).Type(), c.sig.Results().At(i).Type()) {
				return false
			}
		}
		return true
	}
	// a directive is re-bound only if exactly one unnamed variable fits it and that variable fits no other dangling directive
	for _, d := range dangling {
		var m []cand
		for _, c := range actual {
			if fits(d, c) {
				m = append(m, c)
			}
		}
		if len(m) != 1 || m[0].name != name {
			continue
		}
		other := false
		for _, d2 := range dangling {
			if d2 != d && fits(d2, m[0]) {
				other = true
			}
		}
		if !other {
			return con.FuncVars[d]
		}
	}
	return ""
}

func (x *Exec) provenance(f *ssa.Function, v ssa.Value, depth int) string {
	return x.prov(f, v, depth).key
}

func (x *Exec) prov(f *ssa.Function, v ssa.Value, depth int) provInfo {
	if depth > 6 {
		return provInfo{}
	}
	resolve := func(key string) provInfo {
		if c := x.w.Contracts[key]; c != nil && c.SameAs != "" {
			return provInfo{key: c.SameAs}
		}
		return provInfo{key: key}
	}
	unitCon := x.w.Contracts[fnKey(x.w.pkgOfFn(f), f)]
	unitFn := f
	for (unitCon == nil || unitCon.FuncVars == nil) && unitFn.Parent() != nil {
		unitFn = unitFn.Parent()
		unitCon = x.w.Contracts[fnKey(x.w.pkgOfFn(unitFn), unitFn)]
	}
	slot := func(name string, fa *ssa.FieldAddr) provInfo {
		if si, ok := fieldSlots[name]; ok {
			if si.Owner {
				return provInfo{key: si.Key, owner: fa.X}
			}
			return provInfo{key: si.Key}
		}
		return provInfo{key: fieldContracts[name]}
	}
	switch v := v.(type) {
	case *ssa.Function:
		return resolve(fnKey(x.w.pkgOfFn(v), v))
	case *ssa.MakeClosure:
		fn := v.Fn.(*ssa.Function)
		return resolve(fnKey(x.w.pkgOfFn(fn), fn))
	case *ssa.Parameter:
		if unitCon != nil {
			return provInfo{key: x.funcVarKey(unitFn, unitCon, v.Name())}
		}
	case *ssa.FreeVar:
		if unitCon != nil {
			return provInfo{key: x.funcVarKey(unitFn, unitCon, v.Name())}
		}
	case *ssa.ChangeType:
		return x.prov(f, v.X, depth+1)
	case *ssa.Lookup:
		if u, ok := v.X.(*ssa.UnOp); ok {
			if fa, ok := u.X.(*ssa.FieldAddr); ok {
				return slot(fieldName(fa)+"[]", fa)
			}
		}
	case *ssa.Extract:
		return x.prov(f, v.Tuple, depth+1)
	case *ssa.UnOp:
		switch a := v.X.(type) {
		case *ssa.FieldAddr:
			return slot(fieldName(a), a)
		case *ssa.FreeVar:
			if unitCon != nil {
				return provInfo{key: x.funcVarKey(unitFn, unitCon, a.Name())}
			}
		case *ssa.Alloc:
			// a local variable: every store into it must agree
			if unitCon != nil && unitCon.FuncVars[a.Comment] != "" {
				return provInfo{key: unitCon.FuncVars[a.Comment]}
			}
			var k provInfo
			for _, ref := range *a.Referrers() {
				if s, ok := ref.(*ssa.Store); ok && s.Addr == a {
					p := x.prov(f, s.Val, depth+1)
					if p.key == "" || (k.key != "" && (k.key != p.key || k.owner != p.owner)) {
						return provInfo{}
					}
					k = p
				}
			}
			return k
		}
	}
	return provInfo{}
}

// conforms: a function with contract key fk may be stored where contract sk is expected. Either it is (declared sameas) sk,
// or sk is an abstract slot contract made only of clause groups and fk uses all of those groups, requires nothing
// beyond them and modifies nothing beyond them (so requires(sk) => requires(fk), ensures(fk) => ensures(sk),
// modifies(fk) within modifies(sk) hold syntactically; parameters are matched by name).
func (x *Exec) conforms(fk, sk string) (bool, string) {
	if fk == sk {
		return true, ""
	}
	fc, sc := x.w.Contracts[fk], x.w.Contracts[sk]
	if fc == nil {
		return false, "function " + fk + " has no contract"
	}
	if sc == nil {
		return false, "slot contract " + sk + " does not exist"
	}
	if fc.SameAs == sk {
		return true, ""
	}
	in := func(g string, gs []string) bool {
		for _, h := range gs {
			if h == g {
				return true
			}
		}
		return false
	}
	for _, cl := range sc.Ensures {
		if cl.Group == "" {
			return false, "slot contract " + sk + " has postconditions outside clause groups"
		}
	}
	for _, g := range sc.Groups {
		if !in(g, fc.Groups) {
			return false, fk + " does not use clause group " + g + " required by " + sk
		}
	}
	for _, cl := range fc.Requires {
		if cl.Assumed {
			continue
		}
		if !in(cl.Group, sc.Groups) {
			return false, fk + " has a precondition [" + cl.Label + "] that " + sk + " does not guarantee"
		}
	}
	for _, m := range fc.Modifies {
		if !in(fc.ModGroup[m], sc.Groups) {
			return false, fk + " modifies " + m + " outside the frame of " + sk
		}
	}
	if sc.Rank > 0 && (fc.Rank == 0 || fc.Rank > sc.Rank) {
		return false, fmt.Sprintf("%s has termination rank %d, the slot %s allows at most %d", fk, fc.Rank, sk, sc.Rank)
	}
	return true, ""
}

// slotStoreCheck emits the obligations for storing function value v into the slot `name` of the object owner.
func (x *Exec) slotStoreCheck(st *State, name string, fa *ssa.FieldAddr, v ssa.Value, site string) {
	fr := st.top()
	si, ok := fieldSlots[name]
	if !ok {
		return
	}
	ob := "typecontract:" + name + "@" + site
	var method *ssa.Function
	var mc *ssa.MakeClosure
	key := ""
	switch vv := v.(type) {
	case *ssa.MakeClosure:
		mc = vv
		fn := vv.Fn.(*ssa.Function)
		if strings.HasSuffix(fn.Name(), "$bound") {
			if obj, ok := fn.Object().(*types.Func); ok {
				method = x.w.Prog.FuncValue(obj)
			}
			if method != nil {
				key = fnKey(x.w.pkgOfFn(method), method)
			}
		} else {
			key = fnKey(x.w.pkgOfFn(fn), fn)
		}
	default:
		key = x.prov(fr.fn, v, 0).key
	}
	if key == "" {
		x.check(st, ob, "false", site)
		x.notes = append(x.notes, ob+": stored function value has no known contract")
		return
	}
	okc, why := x.conforms(key, si.Key)
	if !okc {
		x.check(st, ob, "false", site)
		x.notes = append(x.notes, ob+": "+why)
		return
	}
	if !si.Owner {
		x.check(st, ob, "true", site)
		return
	}
	// owner binding: the closure must operate on the object that owns the slot
	ownerV := x.val(st, fa.X)
	if mc == nil {
		x.check(st, ob, "false", site)
		x.notes = append(x.notes, ob+": owner-bound slot needs a bound method or function literal")
		return
	}
	fn := mc.Fn.(*ssa.Function)
	if method != nil {
		b := x.val(st, mc.Bindings[0])
		x.check(st, ob, fmt.Sprintf("(= %s %s)", b.S, ownerV.S), site)
		return
	}
	// function literal: its free variable named like the slot contract's first parameter holds the owner
	slotFn := x.w.Funcs[si.Key]
	if slotFn == nil || len(slotFn.Params) == 0 {
		x.check(st, ob, "false", site)
		return
	}
	pname := slotFn.Params[0].Name()
	for i, fv := range fn.FreeVars {
		if fv.Name() != pname {
			continue
		}
		al, isAlloc := mc.Bindings[i].(*ssa.Alloc)
		if !isAlloc || !x.cellStable(al) {
			x.check(st, ob, "false", site)
			x.notes = append(x.notes, ob+": captured variable "+pname+" is assigned after initialisation")
			return
		}
		cur := x.loadAddr(st, x.addrOf(st, x.val(st, al), site))
		x.check(st, ob, fmt.Sprintf("(= %s %s)", cur.S, ownerV.S), site)
		return
	}
	x.check(st, ob, "false", site)
	x.notes = append(x.notes, ob+": function literal does not capture "+pname)
}

// cellStable: the variable cell is stored to exactly once in its function (the parameter spill / initialisation) and
// never inside the function literals that capture it.
func (x *Exec) cellStable(al *ssa.Alloc) bool {
	n := 0
	for _, ref := range *al.Referrers() {
		if s, ok := ref.(*ssa.Store); ok && s.Addr == al {
			n++
		}
	}
	if n != 1 {
		return false
	}
	var scan func(f *ssa.Function) bool
	scan = func(f *ssa.Function) bool {
		for _, af := range f.AnonFuncs {
			for _, fv := range af.FreeVars {
				if fv.Name() != al.Comment {
					continue
				}
				for _, ref := range *fv.Referrers() {
					if s, ok := ref.(*ssa.Store); ok && s.Addr == fv {
						return false
					}
				}
			}
			if !scan(af) {
				return false
			}
		}
		return true
	}
	return scan(al.Parent())
}

func fieldName(fa *ssa.FieldAddr) string {
	st := fa.X.Type().Underlying().(*types.Pointer).Elem()
	nt, ok := st.(*types.Named)
	if !ok {
		return ""
	}
	return nt.Obj().Pkg().Name() + "." + nt.Obj().Name() + "." + st.Underlying().(*types.Struct).Field(fa.Field).Name()
}

// builtins -----------------------------------------------------------------------------------

func (x *Exec) builtin(st *State, name string, cc *ssa.CallCommon, args []Val, site string) Val {
	cx := x.cx
	switch name {
	case "len", "cap":
		a := args[0]
		switch a.T.Underlying().(type) {
		case *types.Basic:
			return x.name(st, "v", Val{S: fmt.Sprintf("(s_len %s)", a.S), T: types.Typ[types.Int]})
		case *types.Slice:
			return x.name(st, "v", Val{S: fmt.Sprintf("(len_%s %s)", cx.sortOf(a.T), a.S), T: types.Typ[types.Int]})
		}
		panic(unsupported("len of " + a.T.String()))
	case "append":
		s, t := args[0], args[1]
		sn := cx.sortOf(s.T)
		plus := cx.op("+")
		if sl, ok := cc.Args[0].(*ssa.Slice); ok && sl.High != nil {
			if _, isSlice := sl.X.Type().Underlying().(*types.Slice); isSlice {
				// append(x[:k], ...) writes into x's storage when k < len(x): shared storage is not covered by the value model
				xv := x.val(st, sl.X)
				hv := x.val(st, sl.High)
				x.check(st, "safe:alias@"+site, fmt.Sprintf("(= %s (len_%s %s))", hv.S, cx.sortOf(sl.X.Type()), xv.S), site)
			}
		}
		if isString(t.T) {
			panic(unsupported("append(bytes, string...)"))
		}
		// known small second operand: slice of a fixed array
		if sl, ok := cc.Args[1].(*ssa.Slice); ok {
			if pt, ok := sl.X.Type().Underlying().(*types.Pointer); ok {
				if at, ok := pt.Elem().Underlying().(*types.Array); ok && sl.Low == nil && sl.High == nil && at.Len() <= 8 {
					arr := fmt.Sprintf("(arr_%s %s)", sn, s.S)
					ln := fmt.Sprintf("(len_%s %s)", sn, s.S)
					for i := int64(0); i < at.Len(); i++ {
						arr = fmt.Sprintf("(store %s (%s %s %s) (select (arr_%s %s) %s))", arr, plus, ln, cx.num(i), sn, t.S, cx.num(i))
					}
					return x.name(st, "app", Val{S: fmt.Sprintf("(mk_%s %s (%s %s %s))", sn, arr, plus, ln, cx.num(at.Len())), T: s.T})
				}
			}
		}
		r := x.declConst(st, "app", sn)
		x.assume(st, fmt.Sprintf("(= (len_%s %s) (%s (len_%s %s) (len_%s %s)))", sn, r, plus, sn, s.S, sn, t.S))
		le, lt := "<=", "<"
		if cx.bv {
			le, lt = "bvsle", "bvslt"
		}
		x.assume(st, fmt.Sprintf("(forall ((i %s)) (! (=> (and (%s %s i) (%s i (len_%s %s))) (= (select (arr_%s %s) i) (select (arr_%s %s) i))) :pattern ((select (arr_%s %s) i))))", cx.intSort(), le, cx.num(0), lt, sn, s.S, sn, r, sn, s.S, sn, r))
		x.assume(st, fmt.Sprintf("(forall ((i %s)) (! (=> (and (%s %s i) (%s i (len_%s %s))) (= (select (arr_%s %s) (%s (len_%s %s) i)) (select (arr_%s %s) i))) :pattern ((select (arr_%s %s) i))))", cx.intSort(), le, cx.num(0), lt, sn, t.S, sn, r, plus, sn, s.S, sn, t.S, sn, t.S))
		return Val{S: r, T: s.T}
	case "min", "max":
		a, b := args[0], args[1]
		c := cx.binop(tokLSS, a.S, b.S, a.T, types.Typ[types.Bool])
		if name == "max" {
			return x.name(st, "v", Val{S: fmt.Sprintf("(ite %s %s %s)", c, b.S, a.S), T: a.T})
		}
		return x.name(st, "v", Val{S: fmt.Sprintf("(ite %s %s %s)", c, a.S, b.S), T: a.T})
	case "ssa:deferstack":
		return Val{S: cx.num(0), T: types.Typ[types.Int]}
	case "ssa:wrapnilchk":
		return args[0]
	}
	panic(unsupported("builtin " + name + " at " + site))
}

// strings.Builder ghost model -------------------------------------------------------------------

func (x *Exec) builderCall(st *State, name string, args []Val, site string) Val {
	cx := x.cx
	cx.declOut()
	a := x.addrOf(st, args[0], site)
	cur := x.loadAddr(st, a)
	errT := types.Universe.Lookup("error").Type()
	switch name {
	case "WriteByte":
		x.builderWrite(st, a, cur, "b", args[1].S, site)
		return Val{S: cx.zeroOf(errT), T: errT}
	case "WriteRune":
		x.builderWrite(st, a, cur, "b", args[1].S, site)
		return Val{Tuple: []Val{{S: cx.num(1), T: types.Typ[types.Int]}, {S: cx.zeroOf(errT), T: errT}}}
	case "WriteString":
		x.builderWrite(st, a, cur, "s", args[1].S, site)
		return Val{Tuple: []Val{{S: fmt.Sprintf("(s_len %s)", args[1].S), T: types.Typ[types.Int]}, {S: cx.zeroOf(errT), T: errT}}}
	case "String":
		r := x.declConst(st, "built", "Str")
		o := x.name(st, "out", cur)
		x.assume(st, fmt.Sprintf("(= (s_len %s) (o_len %s))", r, o.S))
		st.script = append(st.script, entry{kind: 'S', aux: [2]string{r, o.S}})
		cx.declUF("s_hist", "(declare-fun s_hist (Str) Out)")
		x.assume(st, fmt.Sprintf("(= (s_hist %s) %s)", r, o.S))
		return Val{S: r, T: types.Typ[types.String]}
	case "Len":
		return x.name(st, "v", Val{S: fmt.Sprintf("(o_len %s)", cur.S), T: types.Typ[types.Int]})
	case "Reset":
		x.storeAddr(st, a, "o_nil", site)
		return Val{}
	}
	panic(unsupported("strings.Builder." + name))
}

func (x *Exec) builderWrite(st *State, a *Addr, cur Val, kind, operand, site string) {
	evName := "Builder.WriteByte"
	if kind == "s" {
		evName = "Builder.WriteString"
	}
	x.traceCall(st, evName, []Val{{}, {S: operand}}, site)
	old := x.name(st, "out", cur)
	nv := x.declConst(st, "out", "Out")
	x.assume(st, fmt.Sprintf("(= %s (o_%s %s %s))", nv, kind, old.S, operand))
	st.script = append(st.script, entry{kind: 'W', aux: [2]string{nv, old.S}, name: kind, text: operand})
	x.storeAddr(st, a, nv, site)
}

// trusted standard library table ----------------------------------------------------------------

func (x *Exec) stdlib(st *State, callee *ssa.Function, args []Val, site string) Val {
	cx := x.cx
	full := callee.String()
	if i := strings.Index(full, "["); i >= 0 {
		full = full[:i]
	}
	is := cx.intSort()
	uf := func(name string, argSorts []string, res string, as []string) string {
		cx.declUF(name, fmt.Sprintf("(declare-fun %s (%s) %s)", name, strings.Join(argSorts, " "), res))
		if len(as) == 0 {
			return name
		}
		return fmt.Sprintf("(%s %s)", name, strings.Join(as, " "))
	}
	errT := types.Universe.Lookup("error").Type()
	switch full {
	case "strings.TrimRight", "strings.TrimLeft", "strings.Trim":
		n := "lib_" + sanitize(full)
		r := x.name(st, "v", Val{S: uf(n, []string{"Str", "Str"}, "Str", []string{args[0].S, args[1].S}), T: types.Typ[types.String]})
		x.assume(st, fmt.Sprintf("(and (<= 0 (s_len %s)) (<= (s_len %s) (s_len %s)))", r.S, r.S, args[0].S))
		return r
	case "strings.TrimSpace":
		r := x.name(st, "v", Val{S: uf("lib_strings_TrimSpace", []string{"Str"}, "Str", []string{args[0].S}), T: types.Typ[types.String]})
		x.assume(st, fmt.Sprintf("(and (<= 0 (s_len %s)) (<= (s_len %s) (s_len %s)))", r.S, r.S, args[0].S))
		return r
	case "strings.ReplaceAll":
		return x.name(st, "v", Val{S: uf("lib_strings_ReplaceAll", []string{"Str", "Str", "Str"}, "Str", []string{args[0].S, args[1].S, args[2].S}), T: types.Typ[types.String]})
	case "strings.Repeat":
		r := x.name(st, "v", Val{S: uf("lib_strings_Repeat", []string{"Str", is}, "Str", []string{args[0].S, args[1].S}), T: types.Typ[types.String]})
		x.check(st, "safe:panic@"+site+"/Repeat", fmt.Sprintf("(>= %s 0)", args[1].S), site)
		return r
	case "strings.Split":
		t := callee.Signature.Results().At(0).Type()
		sn := cx.sortOf(t)
		r := x.name(st, "v", Val{S: uf("lib_strings_Split", []string{"Str", "Str"}, sn, []string{args[0].S, args[1].S}), T: t})
		x.assume(st, fmt.Sprintf("(>= (len_%s %s) 1)", sn, r.S))
		return r
	case "strings.Join":
		sn := cx.sortOf(args[0].T)
		return x.name(st, "v", Val{S: uf("lib_strings_Join", []string{sn, "Str"}, "Str", []string{args[0].S, args[1].S}), T: types.Typ[types.String]})
	case "fmt.Sprintf":
		r := x.declConst(st, "sprintf", "Str")
		x.assume(st, fmt.Sprintf("(<= 0 (s_len %s))", r))
		return Val{S: r, T: types.Typ[types.String]}
	case "fmt.Errorf":
		cx.sortOf(errT)
		p := x.declConst(st, "errp", is)
		x.assume(st, fmt.Sprintf("(not (= %s 0))", p))
		return x.name(st, "err", Val{S: fmt.Sprintf("(mk_Iface %s %s)", cx.num(int64(cx.tagOf(types.Typ[types.UntypedNil]))), p), T: errT})
	case "strconv.ParseInt":
		cx.sortOf(errT)
		v := uf("lib_ParseInt_val", []string{"Str", is, is}, is, []string{args[0].S, args[1].S, args[2].S})
		e := uf("lib_ParseInt_err", []string{"Str", is, is}, "Iface", []string{args[0].S, args[1].S, args[2].S})
		return Val{Tuple: []Val{x.name(st, "v", Val{S: v, T: types.Typ[types.Int64]}), x.name(st, "err", Val{S: e, T: errT})}}
	case "strconv.ParseFloat":
		cx.sortOf(errT)
		v := uf("lib_ParseFloat_val", []string{"Str", is}, "Real", []string{args[0].S, args[1].S})
		e := uf("lib_ParseFloat_err", []string{"Str", is}, "Iface", []string{args[0].S, args[1].S})
		return Val{Tuple: []Val{x.name(st, "v", Val{S: v, T: types.Typ[types.Float64]}), x.name(st, "err", Val{S: e, T: errT})}}
	case "slices.Contains":
		sn := cx.sortOf(args[0].T)
		b := x.declConst(st, "contains", "Bool")
		q := cx.fresh("qi")
		x.assume(st, fmt.Sprintf("(= %s (exists ((%s %s)) (and (<= 0 %s) (< %s (len_%s %s)) (= (select (arr_%s %s) %s) %s))))", b, q, is, q, q, sn, args[0].S, sn, args[0].S, q, args[1].S))
		return Val{S: b, T: types.Typ[types.Bool]}
	case "maps.Clone":
		// a fresh map with the entries of the argument (the argument is assumed non-nil: a nil map clones to nil, which
		// the callers in scope never pass -- checked)
		src := args[0]
		mt := src.T.Underlying().(*types.Map)
		kv, kh := cx.mapKeys(mt)
		x.check(st, "safe:nilmap@"+site, fmt.Sprintf("(not (= %s %s))", src.S, cx.num(0)), site)
		ov, oh := x.heapName(st, kv), x.heapName(st, kh)
		p := x.newPtr(st, "map", kv)
		st.fresh[p] = true
		x.heapSet(st, kv, p, fmt.Sprintf("(select %s %s)", ov, src.S))
		x.heapSet(st, kh, p, fmt.Sprintf("(select %s %s)", oh, src.S))
		return Val{S: p, T: src.T}
	case "maps.Copy":
		dst, src := args[0], args[1]
		mt := dst.T.Underlying().(*types.Map)
		kv, kh := cx.mapKeys(mt)
		ks := cx.sortOf(mt.Key())
		x.check(st, "safe:nilmap@"+site, fmt.Sprintf("(not (= %s %s))", dst.S, cx.num(0)), site)
		x.frameCheck(st, kv, dst.S, site)
		ov, oh := x.heapName(st, kv), x.heapName(st, kh)
		nv := x.declConst(st, "mcv", cx.heapSort[kv])
		nh := x.declConst(st, "mch", cx.heapSort[kh])
		q := cx.fresh("qk")
		x.assume(st, fmt.Sprintf("(forall ((%s %s)) (! (and (= (select %s %s) (or (select (select %s %s) %s) (select (select %s %s) %s))) (= (select %s %s) (ite (select (select %s %s) %s) (select (select %s %s) %s) (select (select %s %s) %s)))) :pattern ((select %s %s)) :pattern ((select %s %s))))",
			q, ks,
			nh, q, oh, dst.S, q, oh, src.S, q,
			nv, q, oh, src.S, q, ov, src.S, q, ov, dst.S, q,
			nh, q, nv, q))
		x.heapSet(st, kv, dst.S, nv)
		x.heapSet(st, kh, dst.S, nh)
		return Val{}
	}
	panic(unsupported("standard library call " + full + " at " + site))
}

// ghost call trace ---------------------------------------------------------------------------------

func (x *Exec) traceEvent(st *State, name string, args []Val, vars map[string]Val, site string) {
	h := map[string]string{}
	for k, v := range st.heap {
		h[k] = v
	}
	st.trace = append(st.trace, traceEv{name: name, args: args, vars: vars, heap: h, site: site})
}

func (x *Exec) traceCall(st *State, name string, args []Val, site string) {
	x.traceEvent(st, name, args, nil, site)
}

// atCallChecks emits the obligations "atcall <callee> [label] expr" of the unit's contract: expr must hold in the state in
// which the unit calls callee (old() = the unit's entry state).
func (x *Exec) atCallChecks(st *State, short string, seq int, calleeVars map[string]Val, site string, calleeCon *Contract) {
	// calls made by helpers and thunk literals executed in place count as calls of the unit (the clause is evaluated
	// over the unit's own variables, invEnv)
	if x.con == nil {
		return
	}
	for i, cl := range x.con.AtCalls {
		if cl.Ranked {
			// termination: a ranked callee of lower rank needs nothing; otherwise the measure must have dropped
			if calleeCon == nil || calleeCon.Rank == 0 || x.noRankCall || x.con.NoRank["*"] {
				continue
			}
			if x.con.Rank > 0 && calleeCon.Rank < x.con.Rank {
				continue
			}
		}
		callee := cl.Callee
		if i := strings.Index(callee, ":"); i > 0 {
			callee = callee[i+1:]
		}
		if callee != short && callee != "*" {
			continue
		}
		lab := cl.Label
		if lab == "" {
			lab = fmt.Sprintf("%d", i+1)
		}
		env := x.invEnv(st)
		if cl.Callee != "*" {
			for k, v := range calleeVars {
				env.vars["arg_"+k] = v
			}
		}
		g := x.clauseTerm(st, cl, env)
		x.check(st, fmt.Sprintf("atcall@%s[%s]", short, lab), g, site)
	}
}

// havocSharedCaptures: variables captured by the unit (a function literal) that some function literal assigns are shared
// mutable state between activations; any call may re-enter a literal sharing them, so they are forgotten after every call.
func (x *Exec) havocSharedCaptures(st *State) {
	if len(x.fn.FreeVars) == 0 {
		return
	}
	top := x.fn
	for top.Parent() != nil {
		top = top.Parent()
	}
	fr := st.frames[0]
	for _, fv := range x.fn.FreeVars {
		if !x.w.mutableCapture(top, fv.Name()) {
			continue
		}
		r, ok := fr.regs[fv]
		if !ok {
			continue
		}
		et := fv.Type().(*types.Pointer).Elem()
		key := x.cx.cellKey(et)
		n := x.declConst(st, "shared_"+sanitize(fv.Name()), x.cx.sortOf(et))
		x.typeFacts(st, n, et, 0)
		x.heapSet(st, key, r.S, n)
	}
}

// mutableCapture: some function literal nested in top assigns its free variable called name.
func (w *World) mutableCapture(top *ssa.Function, name string) bool {
	var scan func(f *ssa.Function) bool
	scan = func(f *ssa.Function) bool {
		for _, af := range f.AnonFuncs {
			for _, fv := range af.FreeVars {
				if fv.Name() != name {
					continue
				}
				for _, ref := range *fv.Referrers() {
					if s, ok := ref.(*ssa.Store); ok && s.Addr == fv {
						return true
					}
				}
			}
			if scan(af) {
				return true
			}
		}
		return false
	}
	return scan(top)
}

var traceBuiltins = map[string]bool{"ncalls": true, "callArg": true, "callResult": true, "callOrder": true, "atCall": true, "traceSeq": true, "fullSeq": true, "writeSeq": true}

// usesTrace: the clause mentions the ghost call trace of its own unit.
func usesTrace(cl *Clause) bool {
	if cl.Fn == nil {
		return false
	}
	found := false
	ast.Inspect(cl.Fn.Decl.Body, func(n ast.Node) bool {
		if ce, ok := n.(*ast.CallExpr); ok {
			switch f := ce.Fun.(type) {
			case *ast.Ident:
				if traceBuiltins[f.Name] {
					found = true
				}
			case *ast.IndexExpr:
				if id, ok := f.X.(*ast.Ident); ok && traceBuiltins[id.Name] {
					found = true
				}
			}
		}
		return !found
	})
	return found
}
