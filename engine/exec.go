package main

import (
	"fmt"
	"go/constant"
	"go/token"
	"go/types"
	"sort"
	"strings"

	"golang.org/x/tools/go/ssa"
)

// script entries -------------------------------------------------------------

type entry struct {
	kind      byte // 'd' declaration/definition text, 'a' assertion, 'c' check (goal), 'S' builder-String link
	text      string
	name      string // obligation name for 'c'
	inherited bool
	probes    []string
	aux       [2]string // for 'S': result string, Out term
	site      string
}

type deferred struct {
	call *ssa.CallCommon
	args []Val
	fn   Val // closure value for closure calls
	pos  token.Pos
}

type frame struct {
	fn      *ssa.Function
	regs    map[ssa.Value]Val
	cells   map[*ssa.Alloc]string
	block   *ssa.BasicBlock
	idx     int
	prev    *ssa.BasicBlock
	defers  []deferred
	visits  map[int]int // loop header block index -> visits on this path (unroll)
	retInto ssa.Value   // in the caller: the call instruction receiving the result
	resume  bool        // true: on return re-execute the caller's current instruction (RunDefers)
	inDefer bool
	// loop bookkeeping for the unit frame
	variant map[int]string // header index -> variant value at loop head
	loopEntry map[int]*loopSnap // header index -> state at loop entry
	loopHead  map[int]*loopSnap // header index -> state at the head of the current iteration (after havoc + invariant)
}

type State struct {
	frames  []*frame
	heap    map[string]string
	script  []entry
	fresh   map[string]bool     // pointer terms allocated on this path
	ptrs    map[string][]string // struct name -> pointer terms known so far
	depth   int
	nonnil  map[string]bool
	ended   bool
	callSeq map[string]int
	iters   map[ssa.Value]iterState // live map iterators (range over a map)
	trace   []traceEv // ghost call trace of this path: contract calls, slot calls, callbacks, in program order
}

// iterState: a range-over-map iterator: the map, its key/value types, and the ghost set of keys already delivered.
type iterState struct {
	m       string
	mt      *types.Map
	visited string // term of sort (Array K Bool)
	hasSnap string // the map's key set when the iteration started
	valSnap string
}

// traceEv is one event of the ghost call trace.
type traceEv struct {
	name string // short contract key of the callee, e.g. "(*Parser).NextToken", "baseParseExpression"
	args []Val
	vars map[string]Val    // callee parameter name -> argument
	heap map[string]string // heap versions when the call was made
	site string
	res  Val
}

func (st *State) top() *frame { return st.frames[len(st.frames)-1] }

func (st *State) clone() *State {
	n := &State{heap: map[string]string{}, fresh: map[string]bool{}, ptrs: map[string][]string{}, depth: st.depth, callSeq: map[string]int{}}
	for k, v := range st.heap {
		n.heap[k] = v
	}
	for k, v := range st.fresh {
		n.fresh[k] = v
	}
	for k, v := range st.ptrs {
		n.ptrs[k] = append([]string{}, v...)
	}
	for k, v := range st.callSeq {
		n.callSeq[k] = v
	}
	n.nonnil = map[string]bool{}
	for k, v := range st.nonnil {
		n.nonnil[k] = v
	}
	n.trace = append([]traceEv{}, st.trace...)
	if st.iters != nil {
		n.iters = map[ssa.Value]iterState{}
		for k, v := range st.iters {
			n.iters[k] = v
		}
	}
	n.script = make([]entry, len(st.script))
	copy(n.script, st.script)
	for i := range n.script {
		if n.script[i].kind == 'c' || n.script[i].kind == 'v' {
			n.script[i].inherited = true
		}
	}
	for _, f := range st.frames {
		nf := *f
		nf.regs = make(map[ssa.Value]Val, len(f.regs))
		for k, v := range f.regs {
			nf.regs[k] = v
		}
		nf.cells = make(map[*ssa.Alloc]string, len(f.cells))
		for k, v := range f.cells {
			nf.cells[k] = v
		}
		nf.visits = map[int]int{}
		for k, v := range f.visits {
			nf.visits[k] = v
		}
		nf.variant = map[int]string{}
		for k, v := range f.variant {
			nf.variant[k] = v
		}
		nf.defers = append([]deferred{}, f.defers...)
		if f.loopEntry != nil {
			nf.loopEntry = map[int]*loopSnap{}
			for k, v := range f.loopEntry {
				nf.loopEntry[k] = v
			}
		}
		if f.loopHead != nil {
			nf.loopHead = map[int]*loopSnap{}
			for k, v := range f.loopHead {
				nf.loopHead[k] = v
			}
		}
		n.frames = append(n.frames, &nf)
	}
	return n
}

// Exec verifies one function against its contract.
type Exec struct {
	noRankCall bool // the contract call being made is exempt from the termination obligation (norank)
	w        *World
	cx       *Cx
	fn       *ssa.Function
	key      string
	con      *Contract
	vars     *fnVars
	paths    [][]entry
	npaths   int
	maxPaths int
	loops    map[int]*loopInfo // by header block index
	loopOrd  map[int]int       // header block index -> ordinal (1-based)
	entryPar map[string]Val    // param name -> entry value
	modSet   []modEntry
	modAll   bool
	notes    []string
	covers   []string
	exceptLemma string
	prune    bool
	probes   []probe
	pruned   int
	curLoopPos token.Pos
	paramAlias [][2]string // contract name -> code name of renamed parameters
	thorough bool
	inlLoops map[ssa.Instruction]map[int]*loopInfo // call of a contract-less helper -> its loops (by header index)
	nLoops   int
}

type loopInfo struct {
	header *ssa.BasicBlock
	blocks map[int]bool
	spec   *LoopSpec
	ord    int
	fn     *ssa.Function // the function the loop belongs to (the unit, or a helper executed in place)
}

type modEntry struct {
	key string
	ptr string
	all bool // whole map contents etc.
}

func (x *Exec) addDecl(st *State, s string)   { st.script = append(st.script, entry{kind: 'd', text: s}) }
func (x *Exec) assume(st *State, s string)    { st.script = append(st.script, entry{kind: 'a', text: s}) }
func (x *Exec) check(st *State, name, goal string, site string) {
	st.script = append(st.script, entry{kind: 'c', text: goal, name: name, site: site})
}

func (x *Exec) declConst(st *State, prefix, sort string) string {
	n := x.cx.fresh(prefix)
	x.addDecl(st, fmt.Sprintf("(declare-const %s %s)", n, sort))
	return n
}

// name binds a term to a fresh constant (keeps terms small).
func (x *Exec) name(st *State, prefix string, v Val) Val {
	if v.A != nil || v.Tuple != nil || v.S == "" {
		return v
	}
	if !strings.ContainsAny(v.S, " (") {
		return v
	}
	n := x.declConst(st, prefix, x.cx.sortOf(v.T))
	x.assume(st, fmt.Sprintf("(= %s %s)", n, v.S))
	return Val{S: n, T: v.T}
}

func (x *Exec) typeFacts(st *State, s string, t types.Type, depth int) {
	cx := x.cx
	if depth > 2 {
		return
	}
	switch u := t.Underlying().(type) {
	case *types.Basic:
		if u.Info()&types.IsInteger != 0 {
			var hi int64
			switch u.Kind() {
			case types.Uint8:
				hi = 255
			case types.Uint16:
				hi = 65535
			}
			if hi > 0 {
				if cx.bv {
					x.assume(st, fmt.Sprintf("(bvule %s %s)", s, cx.num(hi)))
				} else {
					x.assume(st, fmt.Sprintf("(and (<= 0 %s) (<= %s %d))", s, s, hi))
				}
			} else if u.Info()&types.IsUnsigned != 0 && !cx.bv {
				x.assume(st, fmt.Sprintf("(<= 0 %s)", s))
			}
		}
	case *types.Slice:
		sn := cx.sortOf(t)
		if cx.bv {
			x.assume(st, fmt.Sprintf("(bvsle %s (len_%s %s))", cx.num(0), sn, s))
		} else {
			x.assume(st, fmt.Sprintf("(<= 0 (len_%s %s))", sn, s))
		}
	case *types.Struct:
		if isBuilder(t) {
			return
		}
		sn := cx.sortOf(t)
		for i := 0; i < u.NumFields(); i++ {
			x.typeFacts(st, fmt.Sprintf("(%s_%s %s)", sn, u.Field(i).Name(), s), u.Field(i).Type(), depth+1)
		}
	}
}

// heap access ---------------------------------------------------------------

func (x *Exec) heapName(st *State, key string) string {
	if n, ok := st.heap[key]; ok {
		return n
	}
	n := key + "@0"
	st.heap[key] = n
	x.addDecl(st, fmt.Sprintf("(declare-const %s (Array %s %s))", n, x.cx.intSort(), x.cx.heapSort[key]))
	return n
}

func (x *Exec) heapSet(st *State, key, ptr, val string) {
	old := x.heapName(st, key)
	n := x.cx.fresh(key)
	x.addDecl(st, fmt.Sprintf("(declare-const %s (Array %s %s))", n, x.cx.intSort(), x.cx.heapSort[key]))
	x.assume(st, fmt.Sprintf("(= %s (store %s %s %s))", n, old, ptr, val))
	st.heap[key] = n
}

func (x *Exec) heapHavocAll(st *State, key string) {
	x.heapName(st, key)
	n := x.cx.fresh(key)
	x.addDecl(st, fmt.Sprintf("(declare-const %s (Array %s %s))", n, x.cx.intSort(), x.cx.heapSort[key]))
	st.heap[key] = n
}

func (x *Exec) envFor(st *State, info *types.Info, pkg string, vars map[string]Val) *Env {
	e := &Env{cx: x.cx, vars: vars, heap: func(key string) string { return x.heapName(st, key) }, info: info, pkg: pkg}
	if len(st.iters) == 1 {
		for _, it := range st.iters {
			vis := it.visited
			e.seen = func(k string) string { return fmt.Sprintf("(select %s %s)", vis, k) }
		}
	}
	e.trace = st.trace
	e.tsnap = func(ev traceEv) *Env {
		return &Env{cx: x.cx, vars: vars, heap: func(key string) string {
			if n, ok := ev.heap[key]; ok {
				return n
			}
			x.heapName(st, key)
			return key + "@0"
		}}
	}
	return e
}

// entry environment: entry heap versions and entry parameter values
func (x *Exec) entryEnv(st *State) *Env {
	e := &Env{cx: x.cx, vars: map[string]Val{}, heap: func(key string) string {
		x.heapName(st, key) // make sure @0 is declared on this path
		return key + "@0"
	}}
	for k, v := range x.entryPar {
		e.vars[k] = v
	}
	return e
}

// value of an SSA operand -------------------------------------------------------

func (x *Exec) val(st *State, v ssa.Value) Val {
	cx := x.cx
	fr := st.top()
	switch v := v.(type) {
	case *ssa.Const:
		t := v.Type()
		if v.Value == nil {
			return Val{S: cx.zeroOf(t), T: t}
		}
		switch v.Value.Kind() {
		case constant.Int:
			if n, ok := constant.Int64Val(v.Value); ok {
				return Val{S: cx.num(n), T: t}
			}
			if n, ok := constant.Uint64Val(v.Value); ok && cx.bv {
				return Val{S: fmt.Sprintf("(_ bv%d 64)", n), T: t}
			}
		case constant.Bool:
			if constant.BoolVal(v.Value) {
				return Val{S: "true", T: t}
			}
			return Val{S: "false", T: t}
		case constant.String:
			return Val{S: cx.strLit(constant.StringVal(v.Value)), T: t}
		}
		panic(unsupported("constant " + v.String()))
	case *ssa.Global:
		name := "g_" + v.Pkg.Pkg.Name() + "_" + sanitize(v.Name())
		et := v.Type().(*types.Pointer).Elem()
		if v.Name() == "init$guard" {
			return Val{S: name, T: v.Type(), A: &Addr{Kind: aGlobalRO, Ptr: "false", Base: et, Elem: et}}
		}
		if !x.w.StoredGlobals[v.Pkg.Pkg.Name()+"."+v.Name()] && x.fn.Name() != "init" {
			// never assigned after initialisation: its value is a constant of the program
			gv := "gv_" + v.Pkg.Pkg.Name() + "_" + v.Name()
			cx.declUF(gv, fmt.Sprintf("(declare-const %s %s)", gv, cx.sortOf(et)))
			return Val{S: name, T: v.Type(), A: &Addr{Kind: aGlobalRO, Ptr: gv, Base: et, Elem: et}}
		}
		cx.declUF(name, fmt.Sprintf("(declare-const %s %s)", name, cx.intSort()))
		return Val{S: name, T: v.Type(), A: &Addr{Kind: aCell, Ptr: name, Key: cx.cellKey(et), Base: et, Elem: et}}
	case *ssa.Function:
		return Val{S: x.fnTerm(v), T: v.Type()}
	}
	if r, ok := fr.regs[v]; ok {
		return r
	}
	panic(unsupported(fmt.Sprintf("value %s (%T) not available", v.Name(), v)))
}

func (x *Exec) fnTerm(f *ssa.Function) string {
	cx := x.cx
	cx.sortOf(f.Signature)
	n := "fn_" + sanitize(fnKey(x.w.pkgOfFn(f), f))
	cx.declUF(n, fmt.Sprintf("(declare-const %s Fn)", n))
	cx.declUF("fnid", "(declare-fun fnid (Fn) Int)")
	// distinct static functions are distinct values: fnid gives each a number
	id := len(cx.uf)
	cx.declUF("fnid_"+n, fmt.Sprintf("(assert (= (fnid %s) %d))", n, id))
	return n
}

// load / store through addresses ------------------------------------------------

func (x *Exec) project(root string, rootT types.Type, path []pathStep) (string, types.Type) {
	cx := x.cx
	s, t := root, rootT
	for _, p := range path {
		if p.Field >= 0 {
			st := t.Underlying().(*types.Struct)
			s = fmt.Sprintf("(%s_%s %s)", cx.sortOf(t), st.Field(p.Field).Name(), s)
			t = st.Field(p.Field).Type()
		} else {
			switch u := t.Underlying().(type) {
			case *types.Array:
				s = fmt.Sprintf("(select %s %s)", s, p.Index)
				t = u.Elem()
			case *types.Slice:
				s = fmt.Sprintf("(select (arr_%s %s) %s)", cx.sortOf(t), s, p.Index)
				t = u.Elem()
			default:
				panic(unsupported("index step into " + t.String()))
			}
		}
	}
	return s, t
}

func (x *Exec) update(root string, rootT types.Type, path []pathStep, v string) string {
	cx := x.cx
	if len(path) == 0 {
		return v
	}
	p := path[0]
	if p.Field >= 0 {
		st := rootT.Underlying().(*types.Struct)
		sn := cx.sortOf(rootT)
		var fs []string
		for i := 0; i < st.NumFields(); i++ {
			acc := fmt.Sprintf("(%s_%s %s)", sn, st.Field(i).Name(), root)
			if i == p.Field {
				fs = append(fs, x.update(acc, st.Field(i).Type(), path[1:], v))
			} else {
				fs = append(fs, acc)
			}
		}
		return fmt.Sprintf("(mk_%s %s)", sn, strings.Join(fs, " "))
	}
	switch u := rootT.Underlying().(type) {
	case *types.Array:
		inner := x.update(fmt.Sprintf("(select %s %s)", root, p.Index), u.Elem(), path[1:], v)
		return fmt.Sprintf("(store %s %s %s)", root, p.Index, inner)
	case *types.Slice:
		sn := cx.sortOf(rootT)
		inner := x.update(fmt.Sprintf("(select (arr_%s %s) %s)", sn, root, p.Index), u.Elem(), path[1:], v)
		return fmt.Sprintf("(mk_%s (store (arr_%s %s) %s %s) (len_%s %s))", sn, sn, root, p.Index, inner, sn, root)
	}
	panic(unsupported("update through " + rootT.String()))
}

func (x *Exec) rootOf(st *State, a *Addr) string {
	switch a.Kind {
	case aLocal:
		for i := len(st.frames) - 1; i >= 0; i-- {
			for al, c := range st.frames[i].cells {
				if allocID(al) == a.Cell {
					return c
				}
			}
		}
		panic(unsupported("local cell not live: " + a.Cell))
	case aHeapField, aCell:
		return fmt.Sprintf("(select %s %s)", x.heapName(st, a.Key), a.Ptr)
	case aGlobalRO:
		return a.Ptr
	}
	panic("bad addr")
}

func allocID(a *ssa.Alloc) string { return fmt.Sprintf("%p", a) }

func (x *Exec) loadAddr(st *State, a *Addr) Val {
	root := x.rootOf(st, a)
	s, t := x.project(root, a.Base, a.Path)
	return Val{S: s, T: t}
}

func (x *Exec) storeAddr(st *State, a *Addr, v string, site string) {
	switch a.Kind {
	case aLocal:
		for i := len(st.frames) - 1; i >= 0; i-- {
			for al, c := range st.frames[i].cells {
				if allocID(al) == a.Cell {
					nv := x.update(c, a.Base, a.Path, v)
					nm := x.name(st, "c_"+sanitize(al.Comment), Val{S: nv, T: a.Base})
					st.frames[i].cells[al] = nm.S
					return
				}
			}
		}
		panic(unsupported("store to dead local cell"))
	case aGlobalRO:
		x.check(st, "frame:global@"+site, "false", site)
	case aHeapField, aCell:
		x.frameCheck(st, a.Key, a.Ptr, site)
		root := fmt.Sprintf("(select %s %s)", x.heapName(st, a.Key), a.Ptr)
		nv := x.update(root, a.Base, a.Path, v)
		x.heapSet(st, a.Key, a.Ptr, nv)
	}
}

// addrOf turns a pointer-typed Val into an address.
func (x *Exec) addrOf(st *State, v Val, site string) *Addr {
	if v.A != nil {
		return v.A
	}
	pt, ok := v.T.Underlying().(*types.Pointer)
	if !ok {
		panic(unsupported("address of non-pointer " + v.T.String()))
	}
	et := pt.Elem()
	if _, isStruct := et.Underlying().(*types.Struct); isStruct && !isBuilder(et) {
		panic(unsupported("whole-struct access through pointer " + v.T.String()))
	}
	x.nilCheck(st, v.S, site)
	return &Addr{Kind: aCell, Ptr: v.S, Key: x.cx.cellKey(et), Base: et, Elem: et}
}

func (x *Exec) nilCheck(st *State, ptr string, site string) {
	if st.fresh[ptr] || strings.HasPrefix(ptr, "g_") || st.nonnil[ptr] {
		return
	}
	if st.nonnil == nil {
		st.nonnil = map[string]bool{}
	}
	st.nonnil[ptr] = true
	x.check(st, "safe:nil@"+site, fmt.Sprintf("(not (= %s %s))", ptr, x.cx.num(0)), site)
}

func (x *Exec) frameCheckNilOK(st *State, key, ptr, site string) {
	x.frameCheckOpt(st, key, ptr, site, true)
}

func (x *Exec) frameCheck(st *State, key, ptr, site string) {
	x.frameCheckOpt(st, key, ptr, site, false)
}

// frameCheck: a heap store must target an object allocated by this activation or a declared modifies location.
func (x *Exec) frameCheckOpt(st *State, key, ptr, site string, nilOK bool) {
	if st.fresh[ptr] || x.modAll {
		return
	}
	var alts []string
	if nilOK {
		alts = append(alts, fmt.Sprintf("(= %s %s)", ptr, x.cx.num(0)))
	}
	for _, m := range x.modSet {
		if m.key == key {
			if m.ptr == ptr {
				return
			}
			alts = append(alts, fmt.Sprintf("(= %s %s)", ptr, m.ptr))
		}
	}
	for _, f := range sortedKeys(st.fresh) {
		alts = append(alts, fmt.Sprintf("(= %s %s)", ptr, f))
	}
	goal := "false"
	if len(alts) == 1 {
		goal = alts[0]
	} else if len(alts) > 1 {
		goal = "(or " + strings.Join(alts, " ") + ")"
	}
	x.check(st, "frame:"+key+"@"+site, goal, site)
}

func (x *Exec) site(ins ssa.Instruction) string {
	p := ins.Pos()
	if !p.IsValid() {
		// fall back to nearest debug position in the block
		return fmt.Sprintf("b%d", ins.Block().Index)
	}
	pos := x.w.Fset.Position(p)
	return fmt.Sprintf("%s:%d", shortFile(pos.Filename), pos.Line)
}

func shortFile(f string) string {
	if i := strings.LastIndex(f, "/"); i >= 0 {
		return f[i+1:]
	}
	return f
}

// allocation ---------------------------------------------------------------------

func (x *Exec) newPtr(st *State, prefix string, group string) string {
	cx := x.cx
	p := x.declConst(st, prefix, cx.intSort())
	if cx.bv {
		x.assume(st, fmt.Sprintf("(not (= %s %s))", p, cx.num(0)))
	} else {
		x.assume(st, fmt.Sprintf("(> %s 0)", p))
	}
	for _, q := range st.ptrs[group] {
		x.assume(st, fmt.Sprintf("(not (= %s %s))", p, q))
	}
	st.ptrs[group] = append(st.ptrs[group], p)
	st.fresh[p] = true
	return p
}

func (x *Exec) notePtr(st *State, group, p string) {
	if strings.ContainsAny(p, " (") {
		return
	}
	for _, q := range st.ptrs[group] {
		if q == p {
			return
		}
	}
	st.ptrs[group] = append(st.ptrs[group], p)
}

func (x *Exec) allocHeap(st *State, t types.Type, comment string) Val {
	cx := x.cx
	pt := types.NewPointer(t)
	if s, ok := t.Underlying().(*types.Struct); ok && !isBuilder(t) {
		p := x.newPtr(st, "new_"+structName(t), structName(t))
		for i := 0; i < s.NumFields(); i++ {
			key, ft := cx.fieldKey(t, i)
			x.heapName(st, key)
			// allocation initialises the fields without a frame check
			old := st.heap[key]
			n := cx.fresh(key)
			x.addDecl(st, fmt.Sprintf("(declare-const %s (Array %s %s))", n, cx.intSort(), cx.heapSort[key]))
			x.assume(st, fmt.Sprintf("(= %s (store %s %s %s))", n, old, p, cx.zeroOf(ft)))
			st.heap[key] = n
		}
		return Val{S: p, T: pt}
	}
	key := cx.cellKey(t)
	p := x.newPtr(st, "cell_"+sanitize(comment), key)
	x.heapName(st, key)
	old := st.heap[key]
	n := cx.fresh(key)
	x.addDecl(st, fmt.Sprintf("(declare-const %s (Array %s %s))", n, cx.intSort(), cx.heapSort[key]))
	x.assume(st, fmt.Sprintf("(= %s (store %s %s %s))", n, old, p, cx.zeroOf(t)))
	st.heap[key] = n
	return Val{S: p, T: pt}
}

// path driver ----------------------------------------------------------------------

func (x *Exec) endPath(st *State) {
	st.ended = true
	x.paths = append(x.paths, st.script)
	x.npaths++
	if x.npaths > x.maxPaths {
		panic(unsupported(fmt.Sprintf("more than %d paths", x.maxPaths)))
	}
}

func (x *Exec) run(st *State) {
	for !st.ended {
		fr := st.top()
		if fr.idx >= len(fr.block.Instrs) {
			panic(unsupported("fell off block"))
		}
		ins := fr.block.Instrs[fr.idx]
		x.step(st, ins)
	}
}

func (x *Exec) gotoBlock(st *State, to *ssa.BasicBlock) {
	fr := st.top()
	from := fr.block
	if len(st.frames) == 1 || fr.fn == x.fn && len(st.frames) == 1 {
		if li := x.loops[to.Index]; li != nil && fr.fn == x.fn {
			if x.loopEdge(st, li, from, to) {
				return
			}
		}
	} else if fr.fn != x.fn || len(st.frames) > 1 {
		// helper executed in place: its loops are governed by the unit's loop contracts (numbered at the call site)
		if len(st.frames) == 2 && fr.retInto != nil {
			if m := x.inlLoops[fr.retInto.(ssa.Instruction)]; m != nil {
				if li := m[to.Index]; li != nil {
					if x.loopEdge(st, li, from, to) {
						return
					}
					fr.prev = from
					fr.block = to
					fr.idx = 0
					return
				}
			}
		}
		if to.Dominates(from) {
			k := fnKey(x.w.pkgOfFn(fr.fn), fr.fn)
			panic(unsupported("loop in inlined function " + k + " (give it a contract)"))
		}
	}
	fr.prev = from
	fr.block = to
	fr.idx = 0
}

// loopEdge handles arrival at a loop header of the unit function. Returns true if the path ended.
func (x *Exec) loopEdge(st *State, li *loopInfo, from, to *ssa.BasicBlock) bool {
	fr := st.top()
	back := li.blocks[from.Index] && from != nil && to.Dominates(from)
	spec := li.spec
	if spec == nil || (len(spec.Invariants) == 0 && spec.Unroll == 0) {
		panic(unsupported(fmt.Sprintf("loop %d of %s has neither invariant nor unroll", li.ord, x.key)))
	}
	if spec.Unroll > 0 {
		fr.visits[to.Index]++
		if fr.visits[to.Index] > spec.Unroll {
			x.check(st, fmt.Sprintf("unwind#%d", li.ord), "false", fmt.Sprintf("loop%d", li.ord))
			x.endPath(st)
			return true
		}
		return false
	}
	// invariant-based
	x.curLoopPos = x.blockPos(li)
	defer func() { x.curLoopPos = token.NoPos }()
	kind := "inv-entry"
	if back {
		kind = "inv-step"
	}
	// move to the header first so that invariants see the cells
	env := x.invEnv(st)
	if fr.loopEntry != nil && fr.loopEntry[to.Index] != nil {
		env.loopEntry = x.snapEnv(st, fr.loopEntry[to.Index])
	}
	if env.loopEntry == nil {
		// first arrival: the entry state is the current state
		e0 := x.invEnv(st)
		e0.old = nil
		env.loopEntry = e0
	}
	if fr.loopHead != nil && fr.loopHead[to.Index] != nil {
		env.loopHead = x.snapEnv(st, fr.loopHead[to.Index])
	}
	ctl := x.loopControl(li)
	// iter(): index of the iteration that just ran -- the hidden range index (-1 before the first iteration; also
	// available in the invariants of range loops), or, at the back edge, the loop counter's value at the head
	if ric := x.rangeIndexCell(st, li); ric != "" {
		env.iter = &Val{S: ric, T: types.Typ[types.Int]}
	} else if back {
		if ctl != nil && fr.loopHead != nil && fr.loopHead[to.Index] != nil {
			if v, ok := fr.loopHead[to.Index].vars[ctl.v.Comment]; ok {
				vv := v
				env.iter = &vv
			}
		}
	}
	// automatic invariant of counting loops: the counter never drops below its (constant) start value
	autoLower := ""
	if ctl != nil && ctl.hasInit {
		if c, ok := fr.cells[ctl.v]; ok {
			autoLower = x.cx.binop(token.LEQ, x.cx.num(ctl.init), c, types.Typ[types.Int], types.Typ[types.Bool])
			x.check(st, fmt.Sprintf("%s#%d[auto.lower]", kind, li.ord), autoLower, fmt.Sprintf("loop%d", li.ord))
		}
	}
	for i, cl := range spec.Invariants {
		lab := cl.Label
		if lab == "" {
			lab = fmt.Sprintf("%d", i+1)
		}
		g := x.clauseTerm(st, cl, env)
		x.check(st, fmt.Sprintf("%s#%d[%s]", kind, li.ord, lab), g, fmt.Sprintf("loop%d", li.ord))
	}
	tr := spec.Before
	trKind := "before"
	if back {
		tr, trKind = spec.Each, "each"
	}
	for i, cl := range tr {
		lab := cl.Label
		if lab == "" {
			lab = fmt.Sprintf("%d", i+1)
		}
		g := x.clauseTerm(st, cl, env)
		x.check(st, fmt.Sprintf("%s#%d[%s]", trKind, li.ord, lab), g, fmt.Sprintf("loop%d", li.ord))
	}
	ri := x.rangeIndexCell(st, li)
	if ri != "" {
		x.check(st, fmt.Sprintf("%s#%d[rangeindex]", kind, li.ord), x.cx.binop(token.LEQ, x.cx.num(-1), ri, types.Typ[types.Int], types.Typ[types.Bool]), fmt.Sprintf("loop%d", li.ord))
	}
	if back {
		if spec.Decreases != nil {
			v0 := fr.variant[to.Index]
			v1 := x.clauseTerm(st, spec.Decreases, env)
			le, lt := "<=", "<"
			if x.cx.bv {
				le, lt = "bvsle", "bvslt"
			}
			x.check(st, fmt.Sprintf("variant#%d", li.ord), fmt.Sprintf("(and (%s %s %s) (%s %s %s))", le, x.cx.num(0), v0, lt, v1, v0), fmt.Sprintf("loop%d", li.ord))
		}
		x.endPath(st)
		return true
	}
	// entry: remember the state in which the loop is entered (atEntry), havoc what the loop modifies,
	// assume the invariant, continue from the header
	snapE := x.invEnv(st)
	sn := &loopSnap{vars: snapE.vars, heap: map[string]string{}}
	for k, v := range st.heap {
		sn.heap[k] = v
	}
	if fr.loopEntry == nil {
		fr.loopEntry = map[int]*loopSnap{}
	}
	fr.loopEntry[to.Index] = sn
	snap := x.snapEnv(st, sn)
	x.havocLoop(st, li)
	env = x.invEnv(st)
	env.loopEntry = snap
	if ric := x.rangeIndexCell(st, li); ric != "" {
		env.iter = &Val{S: ric, T: types.Typ[types.Int]}
	}
	for _, cl := range spec.Invariants {
		x.assume(st, x.clauseTerm(st, cl, env))
	}
	if ri := x.rangeIndexCell(st, li); ri != "" {
		x.assume(st, x.cx.binop(token.LEQ, x.cx.num(-1), ri, types.Typ[types.Int], types.Typ[types.Bool]))
	}
	if ctl != nil && ctl.hasInit {
		if c, ok := fr.cells[ctl.v]; ok {
			x.assume(st, x.cx.binop(token.LEQ, x.cx.num(ctl.init), c, types.Typ[types.Int], types.Typ[types.Bool]))
		}
	}
	if spec.Decreases != nil {
		v := x.name(st, "variant", Val{S: x.clauseTerm(st, spec.Decreases, env), T: types.Typ[types.Int]})
		fr.variant[to.Index] = v.S
	}
	// state at the head of the iteration, for atHead() in `each` clauses and invariants checked at the back edge
	hE := x.invEnv(st)
	hs := &loopSnap{vars: hE.vars, heap: map[string]string{}}
	for k, v := range st.heap {
		hs.heap[k] = v
	}
	if fr.loopHead == nil {
		fr.loopHead = map[int]*loopSnap{}
	}
	fr.loopHead[to.Index] = hs
	// the ghost call trace restarts at the loop head: clauses after this point see the events since here
	st.trace = append(st.trace, traceEv{name: "#loop"})
	return false
}

// invEnv: names visible in loop invariants: current values of the named cells, parameters otherwise; old() = entry.
func (x *Exec) invEnv(st *State) *Env {
	fr := st.frames[0]
	vars := map[string]Val{}
	for k, v := range x.entryPar {
		vars[k] = v
	}
	// free variables of closures: current cell contents
	for _, fv := range x.fn.FreeVars {
		if r, ok := fr.regs[fv]; ok {
			a := x.addrOf(st, r, "freevar")
			vars[fv.Name()] = x.loadAddr(st, a)
		}
	}
	// several locals may share a name (one `i` per loop): pick, per name, the declaration closest before the current
	// loop header (x.curLoopPos), else the last one declared
	best := map[string]*ssa.Alloc{}
	for al := range fr.cells {
		if !isIdent(al.Comment) {
			continue
		}
		b := best[al.Comment]
		if b == nil {
			best[al.Comment] = al
			continue
		}
		ap, bp := al.Pos(), b.Pos()
		if x.curLoopPos.IsValid() {
			aOK, bOK := ap <= x.curLoopPos, bp <= x.curLoopPos
			if aOK != bOK {
				if aOK {
					best[al.Comment] = al
				}
				continue
			}
		}
		if ap > bp {
			best[al.Comment] = al
		}
	}
	for n, al := range best {
		vars[n] = Val{S: fr.cells[al], T: al.Type().(*types.Pointer).Elem()}
	}
	for _, pa := range x.paramAlias {
		if v, ok := vars[pa[1]]; ok {
			vars[pa[0]] = v
		}
	}
	// loop clauses of a helper executed in place may also name the helper's own parameters and locals
	if len(st.frames) > 1 {
		tf := st.top()
		for _, prm := range tf.fn.Params {
			if r, ok := tf.regs[prm]; ok && isIdent(prm.Name()) {
				if _, taken := vars[prm.Name()]; !taken {
					vars[prm.Name()] = r
				}
			}
		}
		for al, c := range tf.cells {
			if isIdent(al.Comment) {
				vars[al.Comment] = Val{S: c, T: al.Type().(*types.Pointer).Elem()}
			}
		}
	}
	// heap-allocated named locals (escaping variables)
	for v, r := range fr.regs {
		if al, ok := v.(*ssa.Alloc); ok && al.Heap && isIdent(al.Comment) && r.A == nil {
			et := al.Type().(*types.Pointer).Elem()
			if _, isStruct := et.Underlying().(*types.Struct); isStruct && !isBuilder(et) {
				vars[al.Comment] = Val{S: r.S, T: al.Type()} // pointer to the struct: clause sees it as value via deref? keep pointer
				continue
			}
			vars[al.Comment] = x.loadAddr(st, x.addrOf(st, r, "local"))
		}
	}
	e := x.envFor(st, nil, x.con.Pkg, vars)
	e.old = x.entryEnv(st)
	e.fresh = x.freshPred(st)
	return e
}

// freshPred: "term is an object allocated by this activation" inside the unit.
func (x *Exec) freshPred(st *State) func(string) string {
	return func(term string) string {
		var alts []string
		for _, f := range sortedKeys(st.fresh) {
			alts = append(alts, fmt.Sprintf("(= %s %s)", term, f))
		}
		if len(alts) == 0 {
			return "false"
		}
		return "(or " + strings.Join(alts, " ") + ")"
	}
}

func (x *Exec) clauseTerm(st *State, cl *Clause, env *Env) string {
	e := *env
	e.info = cl.Fn.Pkg.TypesInfo
	e.pkg = cl.Fn.Pkg.Name
	if e.old != nil {
		o := *e.old
		o.info = e.info
		e.old = &o
	}
	if e.loopEntry != nil {
		o := *e.loopEntry
		o.info = e.info
		e.loopEntry = &o
	}
	if e.loopHead != nil {
		o := *e.loopHead
		o.info = e.info
		e.loopHead = &o
	}
	v := e.block(cl.Fn.Decl.Body.List)
	return v.S
}

// step executes one instruction --------------------------------------------------------

func (x *Exec) step(st *State, ins ssa.Instruction) {
	cx := x.cx
	fr := st.top()
	site := x.site(ins)
	next := func() { fr.idx++ }
	switch ins := ins.(type) {
	case *ssa.DebugRef:
		next()
	case *ssa.Alloc:
		et := ins.Type().(*types.Pointer).Elem()
		if ins.Heap {
			fr.regs[ins] = x.allocHeap(st, et, ins.Comment)
		} else {
			z := cx.zeroOf(et)
			fr.cells[ins] = z
			fr.regs[ins] = Val{T: ins.Type(), A: &Addr{Kind: aLocal, Cell: allocID(ins), Base: et, Elem: et}}
		}
		next()
	case *ssa.Store:
		if g, ok := ins.Addr.(*ssa.Global); ok && g.Name() == "init$guard" {
			next()
			return
		}
		if fa, ok := ins.Addr.(*ssa.FieldAddr); ok {
			if _, isSlot := fieldSlots[fieldName(fa)]; isSlot {
				x.slotStoreCheck(st, fieldName(fa), fa, ins.Val, site)
			}
		}
		a := x.val(st, ins.Addr)
		v := x.val(st, ins.Val)
		if v.A != nil && v.S == "" {
			panic(unsupported("storing an address value at " + site))
		}
		x.storeAddr(st, x.addrOf(st, a, site), v.S, site)
		next()
	case *ssa.UnOp:
		xv := x.val(st, ins.X)
		if fa, ok := ins.X.(*ssa.FieldAddr); ok && ins.Op == token.MUL && ownedFields[fieldName(fa)] {
			if why := ownedEscape(ins); why != "" {
				x.check(st, "owned:escape:"+fieldName(fa)+"@"+site, "false", site)
				x.notes = append(x.notes, "owned:escape: "+why)
			}
		}
		switch ins.Op {
		case token.MUL:
			if xv.A == nil {
				// pointer term
				pt := xv.T.Underlying().(*types.Pointer)
				if _, isStruct := pt.Elem().Underlying().(*types.Struct); isStruct && !isBuilder(pt.Elem()) {
					x.nilCheck(st, xv.S, site)
					env := x.envFor(st, nil, "", nil)
					fr.regs[ins] = x.name(st, "v", env.loadStruct(nil, xv.S, pt.Elem()))
					next()
					return
				}
			}
			a := x.addrOf(st, xv, site)
			v := x.loadAddr(st, a)
			v.T = ins.Type()
			nv := x.name(st, "v", v)
			if nv.S != v.S {
				x.typeFacts(st, nv.S, nv.T, 0)
			} else if a.Kind != aLocal {
				x.typeFacts(st, nv.S, nv.T, 0)
			}
			if _, ok := ins.Type().Underlying().(*types.Pointer); ok {
				x.notePtr(st, structName(ins.Type().Underlying().(*types.Pointer).Elem()), nv.S)
			}
			fr.regs[ins] = nv
		case token.NOT:
			fr.regs[ins] = Val{S: "(not " + xv.S + ")", T: ins.Type()}
		case token.SUB:
			if cx.bv {
				fr.regs[ins] = Val{S: "(bvneg " + xv.S + ")", T: ins.Type()}
			} else {
				fr.regs[ins] = Val{S: "(- " + xv.S + ")", T: ins.Type()}
			}
		case token.XOR:
			if !cx.bv {
				panic(unsupported("^x needs bit-vector mode"))
			}
			fr.regs[ins] = Val{S: "(bvnot " + xv.S + ")", T: ins.Type()}
		default:
			panic(unsupported("unary op " + ins.Op.String()))
		}
		next()
	case *ssa.BinOp:
		a, b := x.val(st, ins.X), x.val(st, ins.Y)
		t := ins.X.Type()
		if _, isIf := t.Underlying().(*types.Interface); isIf {
			s := fmt.Sprintf("(= %s %s)", a.S, b.S)
			if ins.Op == token.NEQ {
				s = "(not " + s + ")"
			}
			fr.regs[ins] = Val{S: s, T: ins.Type()}
			next()
			return
		}
		if (ins.Op == token.QUO || ins.Op == token.REM) && isIntType(t) {
			x.check(st, "safe:div@"+site, fmt.Sprintf("(not (= %s %s))", b.S, cx.num(0)), site)
		}
		s := cx.binop(ins.Op, a.S, b.S, t, ins.Type())
		fr.regs[ins] = x.name(st, "v", Val{S: s, T: ins.Type()})
		next()
	case *ssa.FieldAddr:
		xv := x.val(st, ins.X)
		st0 := ins.X.Type().Underlying().(*types.Pointer).Elem()
		if xv.A != nil {
			a := *xv.A
			a.Path = append(append([]pathStep{}, a.Path...), pathStep{Field: ins.Field})
			a.Elem = st0.Underlying().(*types.Struct).Field(ins.Field).Type()
			fr.regs[ins] = Val{T: ins.Type(), A: &a}
		} else {
			x.nilCheck(st, xv.S, site)
			key, ft := cx.fieldKey(st0, ins.Field)
			fr.regs[ins] = Val{T: ins.Type(), A: &Addr{Kind: aHeapField, Ptr: xv.S, Key: key, Base: ft, Elem: ft}}
		}
		next()
	case *ssa.Field:
		xv := x.val(st, ins.X)
		s := ins.X.Type().Underlying().(*types.Struct)
		fr.regs[ins] = x.name(st, "v", Val{S: fmt.Sprintf("(%s_%s %s)", cx.sortOf(ins.X.Type()), s.Field(ins.Field).Name(), xv.S), T: ins.Type()})
		next()
	case *ssa.IndexAddr:
		xv := x.val(st, ins.X)
		iv := x.val(st, ins.Index)
		switch u := ins.X.Type().Underlying().(type) {
		case *types.Pointer: // pointer to array
			a := *x.addrOf(st, xv, site)
			at := u.Elem().Underlying().(*types.Array)
			x.boundsCheck(st, iv.S, cx.num(at.Len()), site)
			a.Path = append(append([]pathStep{}, a.Path...), pathStep{Field: -1, Index: iv.S})
			a.Elem = at.Elem()
			fr.regs[ins] = Val{T: ins.Type(), A: &a}
		case *types.Slice:
			sn := cx.sortOf(ins.X.Type())
			x.boundsCheck(st, iv.S, fmt.Sprintf("(len_%s %s)", sn, xv.S), site)
			// element address inside a slice value: loads read the value; stores go to the holder the slice was loaded from
			if src := x.srcOf(st, ins.X); src != nil {
				a := *src
				a.Path = append(append([]pathStep{}, a.Path...), pathStep{Field: -1, Index: iv.S})
				a.Elem = u.Elem()
				fr.regs[ins] = Val{T: ins.Type(), A: &a, S: fmt.Sprintf("(select (arr_%s %s) %s)", sn, xv.S, iv.S)}
			} else {
				fr.regs[ins] = Val{T: ins.Type(), S: fmt.Sprintf("(select (arr_%s %s) %s)", sn, xv.S, iv.S), A: &Addr{Kind: -1, Elem: u.Elem()}}
			}
		default:
			panic(unsupported("IndexAddr on " + ins.X.Type().String()))
		}
		next()
	case *ssa.Index:
		xv := x.val(st, ins.X)
		iv := x.val(st, ins.Index)
		switch u := ins.X.Type().Underlying().(type) {
		case *types.Array:
			x.boundsCheck(st, iv.S, cx.num(u.Len()), site)
			fr.regs[ins] = x.name(st, "v", Val{S: fmt.Sprintf("(select %s %s)", xv.S, iv.S), T: ins.Type()})
		case *types.Basic:
			x.boundsCheck(st, iv.S, fmt.Sprintf("(s_len %s)", xv.S), site)
			v := x.name(st, "v", Val{S: fmt.Sprintf("(s_at %s %s)", xv.S, iv.S), T: ins.Type()})
			x.typeFacts(st, v.S, v.T, 0)
			fr.regs[ins] = v
		default:
			panic(unsupported("Index on " + ins.X.Type().String()))
		}
		next()
	case *ssa.Lookup:
		xv := x.val(st, ins.X)
		iv := x.val(st, ins.Index)
		switch u := ins.X.Type().Underlying().(type) {
		case *types.Basic:
			x.boundsCheck(st, iv.S, fmt.Sprintf("(s_len %s)", xv.S), site)
			v := x.name(st, "v", Val{S: fmt.Sprintf("(s_at %s %s)", xv.S, iv.S), T: ins.Type()})
			x.typeFacts(st, v.S, v.T, 0)
			fr.regs[ins] = v
		case *types.Map:
			kv, kh := cx.mapKeys(u)
			has := fmt.Sprintf("(and (not (= %s %s)) (select (select %s %s) %s))", xv.S, cx.num(0), x.heapName(st, kh), xv.S, iv.S)
			val := fmt.Sprintf("(ite %s (select (select %s %s) %s) %s)", has, x.heapName(st, kv), xv.S, iv.S, cx.zeroOf(u.Elem()))
			v := x.name(st, "v", Val{S: val, T: u.Elem()})
			x.typeFacts(st, v.S, v.T, 0)
			if ins.CommaOk {
				h := x.name(st, "ok", Val{S: has, T: types.Typ[types.Bool]})
				fr.regs[ins] = Val{Tuple: []Val{v, h}, T: ins.Type()}
			} else {
				fr.regs[ins] = v
			}
		default:
			panic(unsupported("Lookup on " + ins.X.Type().String()))
		}
		next()
	case *ssa.Extract:
		tv := x.val(st, ins.Tuple)
		if ins.Index >= len(tv.Tuple) {
			panic(unsupported("extract from non-tuple"))
		}
		fr.regs[ins] = tv.Tuple[ins.Index]
		next()
	case *ssa.Slice:
		x.doSlice(st, ins, site)
		next()
	case *ssa.MapUpdate:
		if u, ok := ins.Map.(*ssa.UnOp); ok {
			if fa, ok := u.X.(*ssa.FieldAddr); ok {
				if _, isSlot := fieldSlots[fieldName(fa)+"[]"]; isSlot {
					x.slotStoreCheck(st, fieldName(fa)+"[]", fa, ins.Value, site)
				}
			}
		}
		mv := x.val(st, ins.Map)
		kx := x.val(st, ins.Key)
		vx := x.val(st, ins.Value)
		mt := ins.Map.Type().Underlying().(*types.Map)
		kv, kh := cx.mapKeys(mt)
		x.check(st, "safe:nilmap@"+site, fmt.Sprintf("(not (= %s %s))", mv.S, cx.num(0)), site)
		x.frameCheck(st, kv, mv.S, site)
		x.heapSet(st, kv, mv.S, fmt.Sprintf("(store (select %s %s) %s %s)", x.heapName(st, kv), mv.S, kx.S, vx.S))
		x.heapSet(st, kh, mv.S, fmt.Sprintf("(store (select %s %s) %s true)", x.heapName(st, kh), mv.S, kx.S))
		next()
	case *ssa.MakeMap:
		mt := ins.Type().Underlying().(*types.Map)
		kv, kh := cx.mapKeys(mt)
		p := x.newPtr(st, "map", kv)
		x.heapName(st, kv)
		x.heapName(st, kh)
		st.fresh[p] = true
		x.heapSet(st, kv, p, fmt.Sprintf("((as const (Array %s %s)) %s)", cx.sortOf(mt.Key()), cx.sortOf(mt.Elem()), cx.zeroOf(mt.Elem())))
		x.heapSet(st, kh, p, fmt.Sprintf("((as const (Array %s Bool)) false)", cx.sortOf(mt.Key())))
		fr.regs[ins] = Val{S: p, T: ins.Type()}
		next()
	case *ssa.MakeSlice:
		if ins.Cap != ins.Len {
			lc, ok1 := ins.Len.(*ssa.Const)
			cc, ok2 := ins.Cap.(*ssa.Const)
			if !(ok1 && ok2 && lc.Value != nil && cc.Value != nil && constant.Compare(lc.Value, token.EQL, cc.Value)) {
				panic(unsupported("make([]T, len, cap) with spare capacity at " + site + ": appends would write into storage shared between slice values, which the value model of slices does not cover"))
			}
		}
		lv := x.val(st, ins.Len)
		stt := ins.Type().Underlying().(*types.Slice)
		sn := cx.sortOf(ins.Type())
		fr.regs[ins] = x.name(st, "v", Val{S: fmt.Sprintf("(mk_%s ((as const (Array %s %s)) %s) %s)", sn, cx.intSort(), cx.sortOf(stt.Elem()), cx.zeroOf(stt.Elem()), lv.S), T: ins.Type()})
		next()
	case *ssa.Convert:
		xv := x.val(st, ins.X)
		fr.regs[ins] = x.convert(st, xv, ins.X.Type(), ins.Type(), site)
		next()
	case *ssa.ChangeType:
		xv := x.val(st, ins.X)
		xv.T = ins.Type()
		fr.regs[ins] = xv
		next()
	case *ssa.ChangeInterface:
		xv := x.val(st, ins.X)
		xv.T = ins.Type()
		fr.regs[ins] = xv
		next()
	case *ssa.MakeInterface:
		xv := x.val(st, ins.X)
		cx.sortOf(ins.Type())
		tag := cx.tagOf(ins.X.Type())
		payload := cx.num(0)
		if _, ok := ins.X.Type().Underlying().(*types.Pointer); ok && xv.A == nil {
			payload = xv.S
		} else if isIntType(ins.X.Type()) {
			payload = xv.S
		} else {
			// other payloads are abstracted by an uninterpreted injection
			payload = x.declConst(st, "ifpayload", cx.intSort())
		}
		fr.regs[ins] = x.name(st, "v", Val{S: fmt.Sprintf("(mk_Iface %s %s)", cx.num(int64(tag)), payload), T: ins.Type()})
		next()
	case *ssa.TypeAssert:
		xv := x.val(st, ins.X)
		tag := cx.tagOf(ins.AssertedType)
		is := fmt.Sprintf("(= (if_tag %s) %s)", xv.S, cx.num(int64(tag)))
		if _, ok := ins.AssertedType.Underlying().(*types.Interface); ok {
			panic(unsupported("type assertion to interface"))
		}
		v := Val{S: fmt.Sprintf("(if_val %s)", xv.S), T: ins.AssertedType}
		if ins.CommaOk {
			okv := x.name(st, "ok", Val{S: is, T: types.Typ[types.Bool]})
			vv := x.name(st, "v", Val{S: fmt.Sprintf("(ite %s (if_val %s) %s)", is, xv.S, cx.num(0)), T: ins.AssertedType})
			fr.regs[ins] = Val{Tuple: []Val{vv, okv}, T: ins.Type()}
		} else {
			x.check(st, "safe:assert@"+site, is, site)
			fr.regs[ins] = x.name(st, "v", v)
		}
		next()
	case *ssa.Range:
		mt, ok := ins.X.Type().Underlying().(*types.Map)
		if !ok {
			panic(unsupported("range over " + ins.X.Type().String() + " (rune iteration over strings is not modelled)"))
		}
		mv := x.val(st, ins.X)
		kv, kh := cx.mapKeys(mt)
		ks := cx.sortOf(mt.Key())
		vis := x.declConst(st, "visited", fmt.Sprintf("(Array %s Bool)", ks))
		x.assume(st, fmt.Sprintf("(= %s ((as const (Array %s Bool)) false))", vis, ks))
		hs := x.declConst(st, "iterhas", fmt.Sprintf("(Array %s Bool)", ks))
		x.assume(st, fmt.Sprintf("(= %s (ite (= %s %s) ((as const (Array %s Bool)) false) (select %s %s)))", hs, mv.S, cx.num(0), ks, x.heapName(st, kh), mv.S))
		vs := x.declConst(st, "itervals", fmt.Sprintf("(Array %s %s)", ks, cx.sortOf(mt.Elem())))
		x.assume(st, fmt.Sprintf("(= %s (select %s %s))", vs, x.heapName(st, kv), mv.S))
		if st.iters == nil {
			st.iters = map[ssa.Value]iterState{}
		}
		st.iters[ins] = iterState{m: mv.S, mt: mt, visited: vis, hasSnap: hs, valSnap: vs}
		fr.regs[ins] = Val{S: "iter", T: ins.Type()}
		next()
	case *ssa.Next:
		it, ok := st.iters[ins.Iter]
		if !ok || ins.IsString {
			panic(unsupported("next on an iterator that is not a map iterator"))
		}
		ks := cx.sortOf(it.mt.Key())
		okv := x.declConst(st, "more", "Bool")
		k := x.declConst(st, "key", ks)
		x.typeFacts(st, k, it.mt.Key(), 0)
		nv := x.declConst(st, "visited", fmt.Sprintf("(Array %s Bool)", ks))
		q := cx.fresh("qk")
		x.assume(st, fmt.Sprintf("(=> %s (and (select %s %s) (not (select %s %s)) (= %s (store %s %s true))))", okv, it.hasSnap, k, it.visited, k, nv, it.visited, k))
		x.assume(st, fmt.Sprintf("(=> (not %s) (and (= %s %s) (forall ((%s %s)) (=> (select %s %s) (select %s %s)))))", okv, nv, it.visited, q, ks, it.hasSnap, q, it.visited, q))
		it.visited = nv
		st.iters[ins.Iter] = it
		val := Val{S: fmt.Sprintf("(select %s %s)", it.valSnap, k), T: it.mt.Elem()}
		fr.regs[ins] = Val{Tuple: []Val{{S: okv, T: types.Typ[types.Bool]}, {S: k, T: it.mt.Key()}, x.name(st, "v", val)}, T: ins.Type()}
		next()
	case *ssa.Phi:
		for i, p := range fr.block.Preds {
			if p == fr.prev {
				fr.regs[ins] = x.val(st, ins.Edges[i])
				next()
				return
			}
		}
		panic(unsupported("phi without matching predecessor"))
	case *ssa.MakeClosure:
		x.makeClosure(st, ins)
		next()
	case *ssa.Call:
		x.doCall(st, ins, site)
	case *ssa.Defer:
		d := deferred{call: &ins.Call, pos: ins.Pos()}
		for _, a := range ins.Call.Args {
			d.args = append(d.args, x.val(st, a))
		}
		if !ins.Call.IsInvoke() {
			if _, ok := ins.Call.Value.(*ssa.Function); !ok {
				d.fn = x.val(st, ins.Call.Value)
			}
		}
		fr.defers = append(fr.defers, d)
		next()
	case *ssa.RunDefers:
		if len(fr.defers) == 0 {
			next()
			return
		}
		d := fr.defers[len(fr.defers)-1]
		fr.defers = fr.defers[:len(fr.defers)-1]
		x.callCommon(st, nil, d.call, d.args, &d.fn, site+"/defer", true)
	case *ssa.If:
		c := x.val(st, ins.Cond)
		feasT, feasF := true, true
		if x.prune {
			feasT = x.feasible(st, c.S) || x.unrollHeader(fr, fr.block.Succs[0])
			feasF = x.feasible(st, "(not "+c.S+")") || x.unrollHeader(fr, fr.block.Succs[1])
		}
		var st2 *State
		if feasT && feasF {
			st2 = st.clone()
		} else if feasF {
			st2 = st
		}
		if feasT {
			// true branch
			x.assume(st, c.S)
			x.gotoBlock(st, fr.block.Succs[0])
			if !st.ended {
				x.run(st)
			}
		}
		if feasF {
			fr2 := st2.top()
			x.assume(st2, "(not "+c.S+")")
			x.gotoBlock(st2, fr2.block.Succs[1])
			if !st2.ended {
				x.run(st2)
			}
		}
		if !feasT && !feasF {
			// dead code under the current assumptions
			x.endPath(st)
		}
		st.ended = true
	case *ssa.Jump:
		x.gotoBlock(st, fr.block.Succs[0])
	case *ssa.Return:
		var rs []Val
		for _, r := range ins.Results {
			rs = append(rs, x.val(st, r))
		}
		x.doReturn(st, rs, site)
	case *ssa.Panic:
		x.check(st, "safe:panic@"+site, "false", site)
		x.endPath(st)
	default:
		panic(unsupported(fmt.Sprintf("instruction %T at %s", ins, site)))
	}
}

func (x *Exec) boundsCheck(st *State, idx, n, site string) {
	le, lt := "<=", "<"
	if x.cx.bv {
		le, lt = "bvsle", "bvslt"
	}
	x.check(st, "safe:index@"+site, fmt.Sprintf("(and (%s %s %s) (%s %s %s))", le, x.cx.num(0), idx, lt, idx, n), site)
}

// srcOf: if v is a load from an address, return that address (used for element stores into slices).
func (x *Exec) srcOf(st *State, v ssa.Value) *Addr {
	if u, ok := v.(*ssa.UnOp); ok && u.Op == token.MUL {
		a := x.val(st, u.X)
		if a.A != nil {
			return a.A
		}
		if _, ok := a.T.Underlying().(*types.Pointer); ok {
			return x.addrOf(st, a, "src")
		}
	}
	return nil
}

func (x *Exec) convert(st *State, v Val, from, to types.Type, site string) Val {
	cx := x.cx
	switch {
	case isIntType(from) && isIntType(to):
		return x.name(st, "v", Val{S: cx.wrap(v.S, to), T: to})
	case isIntType(from) && isString(to):
		// string(byte) / string(rune) for ASCII; runes >= 128 produce multi-byte strings (not modelled)
		cx.declByteStr()
		return x.name(st, "v", Val{S: fmt.Sprintf("(s_byte %s)", v.S), T: to})
	case isString(from) && isString(to):
		return Val{S: v.S, T: to}
	}
	if sl, ok := to.Underlying().(*types.Slice); ok && isString(from) && isByte(sl.Elem()) {
		// []byte(s)
		sn := cx.sortOf(to)
		r := x.declConst(st, "bytes", sn)
		x.assume(st, fmt.Sprintf("(= (len_%s %s) (s_len %s))", sn, r, v.S))
		x.assume(st, fmt.Sprintf("(forall ((i %s)) (! (= (select (arr_%s %s) i) (s_at %s i)) :pattern ((select (arr_%s %s) i))))", cx.intSort(), sn, r, v.S, sn, r))
		return Val{S: r, T: to}
	}
	if sl, ok := from.Underlying().(*types.Slice); ok && isString(to) && isByte(sl.Elem()) {
		sn := cx.sortOf(from)
		r := x.declConst(st, "str", "Str")
		x.assume(st, fmt.Sprintf("(= (s_len %s) (len_%s %s))", r, sn, v.S))
		x.assume(st, fmt.Sprintf("(forall ((i %s)) (! (= (s_at %s i) (select (arr_%s %s) i)) :pattern ((s_at %s i))))", cx.intSort(), r, sn, v.S, r))
		return Val{S: r, T: to}
	}
	if types.Identical(from.Underlying(), to.Underlying()) {
		v.T = to
		return v
	}
	panic(unsupported("conversion " + from.String() + " -> " + to.String() + " at " + site))
}

func (x *Exec) doSlice(st *State, ins *ssa.Slice, site string) {
	cx := x.cx
	fr := st.top()
	xv := x.val(st, ins.X)
	var lo, hi string
	if ins.Low != nil {
		lo = x.val(st, ins.Low).S
	}
	if ins.High != nil {
		hi = x.val(st, ins.High).S
	}
	if ins.Max != nil {
		panic(unsupported("3-index slice"))
	}
	le := "<="
	if cx.bv {
		le = "bvsle"
	}
	switch u := ins.X.Type().Underlying().(type) {
	case *types.Basic: // string
		l := fmt.Sprintf("(s_len %s)", xv.S)
		if lo == "" {
			lo = cx.num(0)
		}
		if hi == "" {
			hi = l
		}
		x.check(st, "safe:slice@"+site, fmt.Sprintf("(and (%s %s %s) (%s %s %s) (%s %s %s))", le, cx.num(0), lo, le, lo, hi, le, hi, l), site)
		env := x.envFor(st, nil, "", nil)
		fr.regs[ins] = x.name(st, "v", Val{S: env.subStr(xv.S, lo, hi), T: ins.Type()})
	case *types.Pointer: // *array
		at := u.Elem().Underlying().(*types.Array)
		if lo != "" || hi != "" {
			panic(unsupported("partial slice of array"))
		}
		a := x.addrOf(st, xv, site)
		arr := x.loadAddr(st, a)
		sn := cx.sortOf(ins.Type())
		fr.regs[ins] = x.name(st, "v", Val{S: fmt.Sprintf("(mk_%s %s %s)", sn, arr.S, cx.num(at.Len())), T: ins.Type()})
	case *types.Slice:
		sn := cx.sortOf(ins.X.Type())
		l := fmt.Sprintf("(len_%s %s)", sn, xv.S)
		if lo != "" && lo != cx.num(0) {
			panic(unsupported("slice with non-zero low bound"))
		}
		if hi != "" {
			// x[:k] keeps the storage behind k reachable for appends: only sound in the value model of slices when the
			// slice is exclusively owned by its field (declared `owned`) or k is the full length
			owned := false
			if u, ok := ins.X.(*ssa.UnOp); ok {
				if fa, ok := u.X.(*ssa.FieldAddr); ok && ownedFields[fieldName(fa)] {
					owned = true
				}
			}
			if !owned && !readOnlyFlow(ins, map[ssa.Value]bool{}, 0) {
				x.check(st, "safe:alias@"+site, fmt.Sprintf("(= %s %s)", hi, l), site)
			}
		}
		if hi == "" {
			hi = l
		}
		x.check(st, "safe:slice@"+site, fmt.Sprintf("(and (%s %s %s) (%s %s %s))", le, cx.num(0), hi, le, hi, l), site)
		fr.regs[ins] = x.name(st, "v", Val{S: fmt.Sprintf("(mk_%s (arr_%s %s) %s)", sn, sn, xv.S, hi), T: ins.Type()})
	default:
		panic(unsupported("slice of " + ins.X.Type().String()))
	}
}

func (x *Exec) makeClosure(st *State, ins *ssa.MakeClosure) {
	cx := x.cx
	fr := st.top()
	f := ins.Fn.(*ssa.Function)
	cx.sortOf(f.Signature)
	if fc := x.w.Contracts[fnKey(x.w.pkgOfFn(f), f)]; fc != nil {
		for i, fv := range f.FreeVars {
			want := x.funcVarKey(f, fc, fv.Name())
			if want == "" || want == "passthrough" {
				continue
			}
			got := ""
			if a, ok := ins.Bindings[i].(*ssa.Alloc); ok {
				got = x.provenance(fr.fn, &ssa.UnOp{X: a}, 0)
			} else if pfv, ok := ins.Bindings[i].(*ssa.FreeVar); ok {
				if uc := x.w.Contracts[fnKey(x.w.pkgOfFn(fr.fn), fr.fn)]; uc != nil {
					got = x.funcVarKey(fr.fn, uc, pfv.Name())
				}
			}
			g := "true"
			if got != want {
				g = "false"
			}
			x.check(st, "typecontract:capture:"+fv.Name()+"@"+x.site(ins), g, x.site(ins))
		}
	}
	// closure value: uninterpreted constructor over the binding pointers
	name := "clo_" + sanitize(fnKey(x.w.pkgOfFn(f), f))
	var sorts, args []string
	for _, b := range ins.Bindings {
		bv := x.val(st, b)
		if bv.A != nil && bv.S == "" {
			panic(unsupported("closure captures a non-escaping address"))
		}
		sorts = append(sorts, cx.intSort())
		args = append(args, bv.S)
	}
	if len(args) == 0 {
		cx.declUF(name, fmt.Sprintf("(declare-const %s Fn)", name))
		fr.regs[ins] = Val{S: name, T: ins.Type()}
		return
	}
	cx.declUF(name, fmt.Sprintf("(declare-fun %s (%s) Fn)", name, strings.Join(sorts, " ")))
	for i := range args {
		cx.declUF(fmt.Sprintf("%s_b%d", name, i), fmt.Sprintf("(declare-fun %s_b%d (Fn) %s)", name, i, cx.intSort()))
	}
	t := fmt.Sprintf("(%s %s)", name, strings.Join(args, " "))
	v := x.name(st, "clo", Val{S: t, T: ins.Type()})
	for i, a := range args {
		x.assume(st, fmt.Sprintf("(= (%s_b%d %s) %s)", name, i, v.S, a))
	}
	cx.declUF("fnid", "(declare-fun fnid (Fn) Int)")
	x.assume(st, fmt.Sprintf("(= (fnid %s) %d)", v.S, cx.closureID(fnKey(x.w.pkgOfFn(f), f))))
	fr.regs[ins] = v
}

// returns ------------------------------------------------------------------------------

func (x *Exec) doReturn(st *State, rs []Val, site string) {
	fr := st.top()
	if len(st.frames) > 1 {
		// return from an inlined call
		st.frames = st.frames[:len(st.frames)-1]
		caller := st.top()
		if fr.retInto != nil {
			switch len(rs) {
			case 0:
			case 1:
				caller.regs[fr.retInto] = rs[0]
			default:
				caller.regs[fr.retInto] = Val{Tuple: rs, T: fr.retInto.Type()}
			}
		}
		if !fr.resume {
			caller.idx++
		}
		return
	}
	// unit function: check postconditions
	vars := map[string]Val{}
	for k, v := range x.entryPar {
		vars[k] = v
	}
	for i, n := range x.vars.RNames {
		if i < len(rs) {
			vars[n] = rs[i]
		}
	}
	env := x.envFor(st, nil, x.con.Pkg, vars)
	env.old = x.entryEnv(st)
	env.fresh = x.freshPred(st)
	for i, cl := range x.con.Ensures {
		if cl.Def || cl.BoundedOnly {
			continue
		}
		lab := cl.Label
		if lab == "" {
			lab = fmt.Sprintf("%d", i+1)
		}
		g := x.clauseTerm(st, cl, env)
		x.check(st, "ensures["+lab+"]", g, site)
	}
	x.endPath(st)
}

// loops ----------------------------------------------------------------------------------

// loopsOf computes the natural loops of a function (by header block index).
func loopsOf(f *ssa.Function) map[int]*loopInfo {
	loops := map[int]*loopInfo{}
	for _, b := range f.Blocks {
		for _, s := range b.Succs {
			if s.Dominates(b) {
				li := loops[s.Index]
				if li == nil {
					li = &loopInfo{header: s, blocks: map[int]bool{s.Index: true}, fn: f}
					loops[s.Index] = li
				}
				// natural loop: nodes that reach b without passing s
				var work []*ssa.BasicBlock
				if !li.blocks[b.Index] {
					li.blocks[b.Index] = true
					work = append(work, b)
				}
				for len(work) > 0 {
					n := work[len(work)-1]
					work = work[:len(work)-1]
					for _, p := range n.Preds {
						if !li.blocks[p.Index] {
							li.blocks[p.Index] = true
							work = append(work, p)
						}
					}
				}
			}
		}
	}
	return loops
}

// findLoops numbers the loops the unit's loop contracts refer to: the unit's own loops and the loops of helper
// functions without a contract that the unit calls directly (they are executed in place), all in source order of the
// loop (own) or of the call (helper). Extracting a loop into a helper therefore keeps its ordinal.
func (x *Exec) findLoops() {
	x.loops = loopsOf(x.fn)
	x.inlLoops = map[ssa.Instruction]map[int]*loopInfo{}
	type site struct {
		pos  token.Pos
		sub  token.Pos
		li   *loopInfo
		hidx int
	}
	var sites []site
	for h, li := range x.loops {
		sites = append(sites, site{pos: x.blockPos(li), li: li, hidx: h})
	}
	for _, b := range x.fn.Blocks {
		for _, ins := range b.Instrs {
			call, ok := ins.(*ssa.Call)
			if !ok {
				continue
			}
			callee, ok := call.Call.Value.(*ssa.Function)
			if !ok || callee.Blocks == nil || !isRepoFn(callee) || isBuilderMethod(callee) {
				continue
			}
			if c := x.w.Contracts[fnKey(x.w.pkgOfFn(callee), callee)]; c != nil && !c.Inline {
				continue
			}
			cl := loopsOf(callee)
			if len(cl) == 0 {
				continue
			}
			m := map[int]*loopInfo{}
			for h, li := range cl {
				m[h] = li
				sites = append(sites, site{pos: call.Pos(), sub: x.blockPos(li), li: li, hidx: h})
			}
			x.inlLoops[call] = m
		}
	}
	sort.Slice(sites, func(i, j int) bool {
		if sites[i].pos != sites[j].pos {
			return sites[i].pos < sites[j].pos
		}
		if sites[i].sub != sites[j].sub {
			return sites[i].sub < sites[j].sub
		}
		return sites[i].hidx < sites[j].hidx
	})
	x.nLoops = len(sites)
	for i, s := range sites {
		s.li.ord = i + 1
		if x.con != nil {
			s.li.spec = x.con.Loops[i+1]
		}
	}
}

func (x *Exec) blockPos(li *loopInfo) token.Pos {
	// smallest valid position of any instruction in the loop
	f := li.fn
	if f == nil {
		f = x.fn
	}
	var best token.Pos
	for bi := range li.blocks {
		for _, ins := range f.Blocks[bi].Instrs {
			if p := ins.Pos(); p.IsValid() && (best == 0 || p < best) {
				best = p
			}
		}
	}
	return best
}

// loopFrame: the activation the loop belongs to (the unit's frame, or the frame of the helper executed in place).
func (x *Exec) loopFrame(st *State, li *loopInfo) *frame {
	if li.fn != nil && li.fn != x.fn {
		return st.top()
	}
	return st.frames[0]
}

// havocLoop forgets everything the loop may modify.
func (x *Exec) havocLoop(st *State, li *loopInfo) {
	cx := x.cx
	fr := x.loopFrame(st, li)
	lf := li.fn
	if lf == nil {
		lf = x.fn
	}
	cells := map[*ssa.Alloc]bool{}
	keys := map[string]bool{}
	cellPtrs := map[ssa.Value]bool{}
	visited := map[*ssa.Function]bool{}
	var scanFn func(f *ssa.Function)
	var root func(v ssa.Value) ssa.Value
	root = func(v ssa.Value) ssa.Value {
		for {
			switch a := v.(type) {
			case *ssa.FieldAddr:
				if _, isPtrToStructVal := a.X.(*ssa.Alloc); isPtrToStructVal {
					v = a.X
					continue
				}
				if fa, ok := a.X.(*ssa.FieldAddr); ok {
					v = fa
					continue
				}
				if ia, ok := a.X.(*ssa.IndexAddr); ok {
					v = ia
					continue
				}
				return a // field of a pointer value: heap field
			case *ssa.IndexAddr:
				if u, ok := a.X.(*ssa.UnOp); ok && u.Op == token.MUL {
					v = u.X
					continue
				}
				v = a.X
				continue
			default:
				return v
			}
		}
	}
	noteStore := func(addr ssa.Value, f *ssa.Function) {
		r := root(addr)
		switch r := r.(type) {
		case *ssa.Alloc:
			if r.Heap {
				et := r.Type().(*types.Pointer).Elem()
				if s, ok := et.Underlying().(*types.Struct); ok && !isBuilder(et) {
					for i := 0; i < s.NumFields(); i++ {
						k, _ := cx.fieldKey(et, i)
						keys[k] = true
					}
				} else {
					cellPtrs[r] = true
				}
			} else if f == lf {
				cells[r] = true
			}
		case *ssa.FieldAddr:
			st0 := r.X.Type().Underlying().(*types.Pointer).Elem()
			k, _ := cx.fieldKey(st0, r.Field)
			keys[k] = true
		case *ssa.Global:
			keys[cx.cellKey(r.Type().(*types.Pointer).Elem())] = true
		case *ssa.FreeVar:
			keys[cx.cellKey(r.Type().(*types.Pointer).Elem())] = true
		default:
			if pt, ok := r.Type().Underlying().(*types.Pointer); ok {
				if _, isStruct := pt.Elem().Underlying().(*types.Struct); !isStruct || isBuilder(pt.Elem()) {
					keys[cx.cellKey(pt.Elem())] = true
					return
				}
			}
			panic(unsupported(fmt.Sprintf("cannot determine what a store in a loop modifies (%T)", r)))
		}
	}
	var scanInstr func(ins ssa.Instruction, f *ssa.Function)
	scanInstr = func(ins ssa.Instruction, f *ssa.Function) {
		switch ins := ins.(type) {
		case *ssa.Store:
			noteStore(ins.Addr, f)
		case *ssa.MapUpdate:
			kv, kh := cx.mapKeys(ins.Map.Type().Underlying().(*types.Map))
			keys[kv] = true
			keys[kh] = true
		case ssa.CallInstruction:
			cc := ins.Common()
			if cc.IsInvoke() {
				x.typeContractMods(f, cc, keys)
				return
			}
			switch callee := cc.Value.(type) {
			case *ssa.Builtin:
			case *ssa.Function:
				k := fnKey(x.w.pkgOfFn(callee), callee)
				if isBuilderMethod(callee) {
					if len(cc.Args) > 0 {
						noteStore(cc.Args[0], f)
					}
					return
				}
				if con := x.w.Contracts[k]; con != nil && !con.Inline {
					for _, m := range con.Modifies {
						x.modKeys(callee, m, keys)
					}
					return
				}
				if callee.Blocks != nil && x.w.pkgOfFn(callee) != "" && isRepoFn(callee) {
					scanFn(callee)
				}
			default:
				x.typeContractMods(f, cc, keys)
			}
		}
	}
	scanFn = func(f *ssa.Function) {
		if visited[f] {
			return
		}
		visited[f] = true
		for _, b := range f.Blocks {
			for _, ins := range b.Instrs {
				scanInstr(ins, f)
			}
		}
		for _, af := range f.AnonFuncs {
			scanFn(af)
		}
	}
	for bi := range li.blocks {
		for _, ins := range lf.Blocks[bi].Instrs {
			scanInstr(ins, lf)
		}
	}
	// map iterators advanced inside the loop: forget which keys were delivered (the invariant says it, via seen())
	for bi := range li.blocks {
		for _, ins := range lf.Blocks[bi].Instrs {
			if nx, ok := ins.(*ssa.Next); ok {
				if it, ok := st.iters[nx.Iter]; ok {
					ks := cx.sortOf(it.mt.Key())
					nv := x.declConst(st, "visited", fmt.Sprintf("(Array %s Bool)", ks))
					q := cx.fresh("qk")
					x.assume(st, fmt.Sprintf("(forall ((%s %s)) (=> (select %s %s) (select %s %s)))", q, ks, nv, q, it.hasSnap, q))
					it.visited = nv
					st.iters[nx.Iter] = it
				}
			}
		}
	}
	// apply
	var cl []*ssa.Alloc
	for a := range cells {
		cl = append(cl, a)
	}
	sort.Slice(cl, func(i, j int) bool { return cl[i].Pos() < cl[j].Pos() })
	for _, a := range cl {
		if _, live := fr.cells[a]; !live {
			continue
		}
		et := a.Type().(*types.Pointer).Elem()
		n := x.declConst(st, "h_"+sanitize(a.Comment), cx.sortOf(et))
		x.typeFacts(st, n, et, 0)
		fr.cells[a] = n
	}
	var ks []string
	for k := range keys {
		ks = append(ks, k)
	}
	sort.Strings(ks)
	for _, k := range ks {
		x.heapHavocAll(st, k)
	}
	if len(ks) > 0 && x.con != nil && x.fn.Name() != "init" {
		defer x.assumeGlobals(st)
	}
	for v := range cellPtrs {
		if r, ok := fr.regs[v]; ok {
			et := v.Type().(*types.Pointer).Elem()
			key := cx.cellKey(et)
			n := x.declConst(st, "h_cell", cx.sortOf(et))
			x.typeFacts(st, n, et, 0)
			x.heapSetNoFrame(st, key, r.S, n)
		}
	}
}

func (x *Exec) heapSetNoFrame(st *State, key, ptr, val string) {
	x.heapSet(st, key, ptr, val)
}

func isRepoFn(f *ssa.Function) bool {
	p := f.Pkg
	if p == nil && f.Parent() != nil {
		return isRepoFn(f.Parent())
	}
	return p != nil && strings.HasPrefix(p.Pkg.Path(), modPath)
}

func isBuilderMethod(f *ssa.Function) bool {
	if f.Signature.Recv() == nil {
		return false
	}
	t := f.Signature.Recv().Type()
	if pt, ok := t.(*types.Pointer); ok {
		t = pt.Elem()
	}
	return isBuilder(t)
}

// unrollHeader: the branch leads straight to the header of an unrolled loop whose budget is used up; it is kept
// (not pruned) so that the unwinding assertion is emitted as an explicit obligation.
func (x *Exec) unrollHeader(fr *frame, to *ssa.BasicBlock) bool {
	li := x.loops[to.Index]
	return fr.fn == x.fn && li != nil && li.spec != nil && li.spec.Unroll > 0 && fr.visits[to.Index] >= li.spec.Unroll
}

type loopSnap struct {
	vars map[string]Val
	heap map[string]string
}

func (x *Exec) snapEnv(st *State, sn *loopSnap) *Env {
	return &Env{cx: x.cx, vars: sn.vars, heap: func(key string) string {
		if n, ok := sn.heap[key]; ok {
			return n
		}
		x.heapName(st, key)
		return key + "@0"
	}}
}

// rangeIndexCell: for a compiler-generated "for range" loop over a slice, the current value of its hidden index
// cell (starts at -1, incremented at the loop head); "" for other loops.
func (x *Exec) rangeIndexCell(st *State, li *loopInfo) string {
	if li.header.Comment != "rangeindex.loop" {
		return ""
	}
	fr := x.loopFrame(st, li)
	for _, ins := range li.header.Instrs {
		if s, ok := ins.(*ssa.Store); ok {
			if a, ok := s.Addr.(*ssa.Alloc); ok && a.Comment == "rangeindex" {
				if c, ok := fr.cells[a]; ok {
					return c
				}
			}
		}
	}
	return ""
}

// ownedEscape: the value loaded from an owned slice field is used in a way that may copy the slice header out of the field.
func ownedEscape(load *ssa.UnOp) string {
	fa := load.X.(*ssa.FieldAddr)
	sameField := func(addr ssa.Value) bool {
		a, ok := addr.(*ssa.FieldAddr)
		return ok && a.Field == fa.Field && fieldName(a) == fieldName(fa)
	}
	var okUse func(v ssa.Value, depth int) string
	okUse = func(v ssa.Value, depth int) string {
		if depth > 4 {
			return "too deep"
		}
		for _, ref := range *v.Referrers() {
			switch r := ref.(type) {
			case *ssa.DebugRef, *ssa.IndexAddr, *ssa.Range, *ssa.Lookup:
			case *ssa.Slice:
				if w := okUse(r, depth+1); w != "" {
					return w
				}
			case *ssa.Store:
				if r.Val == v && !sameField(r.Addr) {
					return "stored into another location at " + r.Parent().Name()
				}
			case *ssa.Call:
				switch c := r.Call.Value.(type) {
				case *ssa.Builtin:
					switch c.Name() {
					case "len", "cap":
					case "append":
						if r.Call.Args[0] == v {
							if w := okUse(r, depth+1); w != "" {
								return w
							}
						}
						// as the variadic source its elements are copied
					default:
						return "passed to builtin " + c.Name()
					}
				case *ssa.Function:
					if c.Pkg != nil && c.Pkg.Pkg.Path() == "slices" && c.Name() == "Contains" || strings.HasPrefix(c.String(), "slices.Contains") {
						continue
					}
					return "passed to " + c.String()
				default:
					return "passed to a call"
				}
			default:
				return fmt.Sprintf("used by %T", ref)
			}
		}
		return ""
	}
	return okUse(load, 0)
}

// loopCtl: the counter of a counting loop `for v := k; v < E; v += c` (c > 0), recognised on the SSA.
type loopCtl struct {
	v       *ssa.Alloc
	init    int64
	hasInit bool
}

func (x *Exec) loopControl(li *loopInfo) *loopCtl {
	if li.header.Comment == "rangeindex.loop" {
		return nil
	}
	n := len(li.header.Instrs)
	if n == 0 {
		return nil
	}
	iff, ok := li.header.Instrs[n-1].(*ssa.If)
	if !ok {
		return nil
	}
	bo, ok := iff.Cond.(*ssa.BinOp)
	if !ok {
		return nil
	}
	var al *ssa.Alloc
	for _, side := range []ssa.Value{bo.X, bo.Y} {
		if u, ok := side.(*ssa.UnOp); ok && u.Op == token.MUL {
			if a, ok := u.X.(*ssa.Alloc); ok && !a.Heap && isIntType(a.Type().(*types.Pointer).Elem()) {
				al = a
				break
			}
		}
	}
	if al == nil {
		return nil
	}
	ctl := &loopCtl{v: al}
	inits, ok2 := 0, true
	for _, ref := range *al.Referrers() {
		s, isStore := ref.(*ssa.Store)
		if !isStore || s.Addr != al {
			continue
		}
		if li.blocks[s.Block().Index] {
			// inside the loop: only v = v + c with c > 0
			b, isBin := s.Val.(*ssa.BinOp)
			if !isBin || b.Op != token.ADD {
				ok2 = false
				continue
			}
			ld, isLd := b.X.(*ssa.UnOp)
			c, isC := b.Y.(*ssa.Const)
			if !isLd || ld.X != al || !isC || c.Value == nil {
				ok2 = false
				continue
			}
			if v, exact := constant.Int64Val(c.Value); !exact || v <= 0 {
				ok2 = false
			}
			continue
		}
		c, isC := s.Val.(*ssa.Const)
		if !isC || c.Value == nil {
			ok2 = false
			continue
		}
		if v, exact := constant.Int64Val(c.Value); exact {
			ctl.init = v
			inits++
		} else {
			ok2 = false
		}
	}
	ctl.hasInit = ok2 && inits == 1
	return ctl
}

// readOnlyFlow: the slice value v is only ever read -- indexed, measured, resliced, kept in local variables, or handed to
// statically known callees that do the same with the parameter. Such a prefix x[:k] can share storage with x safely:
// nothing is appended to it and no element is written through it, so the value model of slices stays sound.
func readOnlyFlow(v ssa.Value, seen map[ssa.Value]bool, depth int) bool {
	if seen[v] {
		return true
	}
	seen[v] = true
	if depth > 4 || v.Referrers() == nil {
		return false
	}
	for _, r := range *v.Referrers() {
		switch r := r.(type) {
		case *ssa.DebugRef:
		case *ssa.IndexAddr:
			if r.X != v {
				return false
			}
			for _, rr := range *r.Referrers() {
				switch u := rr.(type) {
				case *ssa.UnOp:
					if u.Op != token.MUL {
						return false
					}
				case *ssa.DebugRef:
				default:
					return false // element address stored to, or escaping
				}
			}
		case *ssa.Slice:
			if r.X != v || !readOnlyFlow(r, seen, depth) {
				return false
			}
		case *ssa.Phi:
			if !readOnlyFlow(r, seen, depth) {
				return false
			}
		case *ssa.Store:
			// kept in a local variable: every value read back from it must be used read-only, too
			al, ok := r.Addr.(*ssa.Alloc)
			if !ok || r.Val != v || al.Heap {
				return false
			}
			if seen[al] {
				continue
			}
			seen[al] = true
			for _, ar := range *al.Referrers() {
				switch u := ar.(type) {
				case *ssa.Store:
					if u.Addr != al {
						return false // the variable's address escapes
					}
				case *ssa.UnOp:
					if u.Op != token.MUL || !readOnlyFlow(u, seen, depth) {
						return false
					}
				case *ssa.DebugRef:
				default:
					return false // captured by a closure, address taken
				}
			}
		case *ssa.Call:
			cc := r.Common()
			if cc.IsInvoke() {
				return false
			}
			if b, ok := cc.Value.(*ssa.Builtin); ok {
				if b.Name() != "len" && b.Name() != "cap" {
					return false
				}
				continue
			}
			callee := cc.StaticCallee()
			if callee == nil || len(callee.Blocks) == 0 || callee.Signature.Variadic() {
				return false
			}
			for i, a := range cc.Args {
				if a != v {
					continue
				}
				if i >= len(callee.Params) || !readOnlyFlow(callee.Params[i], seen, depth+1) {
					return false
				}
			}
		default:
			return false
		}
	}
	return true
}
