package main

import (
	"fmt"
	"go/ast"
	"go/token"
	"go/types"
	"os"
	"path/filepath"
	"sort"
	"strings"

	"golang.org/x/tools/go/packages"
	"golang.org/x/tools/go/ssa"
	"golang.org/x/tools/go/ssa/ssautil"
)

const modPath = "github.com/xjslang/xjs"

var verifPkgs = []string{"token", "lexer", "parser", "ast", "sourcemap", "compiler", "debug"}

const contractFile = "contracts_verif.go"
const genFile = "xvc_gen_verif.go"

// World is everything loaded from /repo for one run.
type World struct {
	RepoDir string
	Fset    *token.FileSet
	Pkgs    map[string]*packages.Package // by short name
	Prog    *ssa.Program
	SPkgs   map[string]*ssa.Package
	Funcs   map[string]*ssa.Function // by contract key, e.g. "lexer.(*Lexer).ReadChar", "lexer.baseNextToken", "parser.(*Parser).useStatementInterceptor$1"
	// spec functions (declared in contracts_verif.go / generated file), by "pkg.name"
	SpecDecls map[string]*SpecFn
	Contracts map[string]*Contract // by function key
	Overlay   map[string][]byte
	Gen       map[string][]byte
	Lemmas    map[string]*Lemma
	StoredGlobals map[string]bool // globals assigned outside package initialisation
	Broken        map[string]*Contract // contracts set aside because they no longer fit the current tree
	BrokenWhy     map[string]string
	harnessLabels map[string][]string // function key -> labels of its executable ensures clauses (last harness generated)
}

type SpecFn struct {
	Pkg  *packages.Package
	Decl *ast.FuncDecl
	Obj  *types.Func
	Key  string
}

func shortPkg(path string) string {
	if i := strings.LastIndex(path, "/"); i >= 0 {
		return path[i+1:]
	}
	return path
}

// loadRepo loads the seven packages with the verif tag. overlay may add the generated clause files.
func loadRepo(repo string, overlay map[string][]byte) (*World, error) {
	cfg := &packages.Config{
		Mode:       packages.LoadAllSyntax,
		Dir:        repo,
		BuildFlags: []string{"-tags=verif"},
		Overlay:    overlay,
		Env:        append(os.Environ(), "GOFLAGS=-mod=mod", "GOPROXY=off", "GOSUMDB=off", "GOTOOLCHAIN=local"),
	}
	var pats []string
	for _, p := range verifPkgs {
		pats = append(pats, "./"+p)
	}
	pkgs, err := packages.Load(cfg, pats...)
	if err != nil {
		return nil, err
	}
	w := &World{RepoDir: repo, Pkgs: map[string]*packages.Package{}, SPkgs: map[string]*ssa.Package{}, Funcs: map[string]*ssa.Function{}, SpecDecls: map[string]*SpecFn{}, Contracts: map[string]*Contract{}, Overlay: overlay}
	var errs []string
	for _, p := range pkgs {
		for _, e := range p.Errors {
			errs = append(errs, e.Error())
		}
	}
	if len(errs) > 0 {
		return nil, fmt.Errorf("package errors:\n%s", strings.Join(errs, "\n"))
	}
	prog, spkgs := ssautil.AllPackages(pkgs, ssa.NaiveForm|ssa.GlobalDebug|ssa.InstantiateGenerics)
	prog.Build()
	w.Prog = prog
	for i, p := range pkgs {
		w.Fset = p.Fset
		w.Pkgs[p.Name] = p
		w.SPkgs[p.Name] = spkgs[i]
	}
	// index functions
	for name, sp := range w.SPkgs {
		for _, m := range sp.Members {
			switch m := m.(type) {
			case *ssa.Function:
				w.indexFn(name, m)
			case *ssa.Type:
				for _, T := range []types.Type{m.Type(), types.NewPointer(m.Type())} {
					ms := prog.MethodSets.MethodSet(T)
					for i := 0; i < ms.Len(); i++ {
						f := prog.MethodValue(ms.At(i))
						if f != nil && f.Pkg == sp && f.Synthetic == "" {
							w.indexFn(name, f)
						}
					}
				}
			}
		}
	}
	// spec functions: every FuncDecl in contractFile / genFile
	for name, p := range w.Pkgs {
		for _, f := range p.Syntax {
			fn := filepath.Base(p.Fset.Position(f.Pos()).Filename)
			if fn != contractFile && fn != genFile {
				continue
			}
			for _, d := range f.Decls {
				fd, ok := d.(*ast.FuncDecl)
				if !ok || fd.Recv != nil {
					continue
				}
				obj, _ := p.TypesInfo.Defs[fd.Name].(*types.Func)
				key := name + "." + fd.Name.Name
				w.SpecDecls[key] = &SpecFn{Pkg: p, Decl: fd, Obj: obj, Key: key}
			}
		}
	}
	w.scanGlobalStores()
	if err := w.collectLemmas(); err != nil {
		return nil, err
	}
	return w, nil
}

func fnKey(pkg string, f *ssa.Function) string {
	if recv := f.Signature.Recv(); recv != nil {
		t := recv.Type()
		star := ""
		if pt, ok := t.(*types.Pointer); ok {
			t = pt.Elem()
			star = "*"
		}
		if nt, ok := t.(*types.Named); ok {
			return fmt.Sprintf("%s.(%s%s).%s", pkg, star, nt.Obj().Name(), f.Name())
		}
	}
	if f.Parent() != nil {
		// anonymous function: parentKey + "$n" (ssa names them parent$n)
		pk := fnKey(pkg, f.Parent())
		nm := f.Name()
		if i := strings.LastIndex(nm, "$"); i >= 0 {
			return pk + nm[i:]
		}
		return pk + "$" + nm
	}
	return pkg + "." + f.Name()
}

func (w *World) indexFn(pkg string, f *ssa.Function) {
	k := fnKey(pkg, f)
	w.Funcs[k] = f
	for _, af := range f.AnonFuncs {
		w.indexFn(pkg, af)
	}
}

func (w *World) pkgOfFn(f *ssa.Function) string {
	if f.Pkg != nil {
		return f.Pkg.Pkg.Name()
	}
	if f.Parent() != nil {
		return w.pkgOfFn(f.Parent())
	}
	return ""
}

func sortedKeys[V any](m map[string]V) []string {
	var ks []string
	for k := range m {
		ks = append(ks, k)
	}
	sort.Strings(ks)
	return ks
}

// scanGlobalStores records which package-level variables are assigned anywhere outside init.
func (w *World) scanGlobalStores() {
	w.StoredGlobals = map[string]bool{}
	var rootGlobal func(v ssa.Value) *ssa.Global
	rootGlobal = func(v ssa.Value) *ssa.Global {
		switch a := v.(type) {
		case *ssa.Global:
			return a
		case *ssa.FieldAddr:
			return rootGlobal(a.X)
		case *ssa.IndexAddr:
			return rootGlobal(a.X)
		}
		return nil
	}
	var scan func(f *ssa.Function)
	scan = func(f *ssa.Function) {
		for _, b := range f.Blocks {
			for _, ins := range b.Instrs {
				if s, ok := ins.(*ssa.Store); ok {
					if g := rootGlobal(s.Addr); g != nil {
						w.StoredGlobals[g.Pkg.Pkg.Name()+"."+g.Name()] = true
					}
				}
			}
		}
		for _, af := range f.AnonFuncs {
			scan(af)
		}
	}
	for _, f := range w.Funcs {
		if f.Name() == "init" || strings.HasPrefix(f.Name(), "init#") {
			continue
		}
		scan(f)
	}
}
