package main

import (
	"fmt"
	"go/ast"
	"go/constant"
	"go/token"
	"go/types"
	"strings"
)

// Env is the environment in which a clause / spec expression is translated.
type Env struct {
	cx    *Cx
	vars  map[string]Val
	heap  func(key string) string // current heap array name for a key (nil inside pure spec function definitions)
	old   *Env                    // environment of the entry state, for old(...)
	info  *types.Info
	pkg   string
	depth int
	loopEntry *Env // state at the moment the loop was entered, for atEntry(...)
	iter      *Val // index of the iteration that just ran (back-edge obligations of counting / range loops)
	loopHead  *Env // state at the head of the current iteration, for atHead(...) (back-edge obligations only)
	side  *[]string // side facts produced while translating (e.g. axioms of s_sub terms)
	seen  func(k string) string // membership in the delivered-key set of the (single) live map iterator
	fresh func(term string) string // "term is an object allocated by this activation" (ensures side)
	trace []traceEv // ghost call trace of the current path (ncalls / callArg / atCall)
	tsnap func(ev traceEv) *Env
}

func (e *Env) with(name string, v Val) *Env {
	n := *e
	n.vars = map[string]Val{}
	for k, x := range e.vars {
		n.vars[k] = x
	}
	n.vars[name] = v
	return &n
}

func (e *Env) fail(n ast.Node, msg string) {
	pos := ""
	if e.cx != nil && e.cx.w != nil && n != nil {
		pos = e.cx.w.Fset.Position(n.Pos()).String() + ": "
	}
	panic(unsupported(pos + msg))
}

func (e *Env) typeOf(x ast.Expr) types.Type {
	if e.info != nil {
		if t := e.info.TypeOf(x); t != nil {
			return t
		}
	}
	return types.Typ[types.Int]
}

func defaultType(t types.Type) types.Type {
	if b, ok := t.(*types.Basic); ok && b.Info()&types.IsUntyped != 0 {
		return types.Default(t)
	}
	return t
}

// expr translates a Go expression into an SMT term.
func (e *Env) expr(x ast.Expr) Val {
	cx := e.cx
	// constants first
	if e.info != nil {
		if tv, ok := e.info.Types[x]; ok && tv.Value != nil {
			t := defaultType(tv.Type)
			switch tv.Value.Kind() {
			case constant.Int:
				if n, ok := constant.Int64Val(tv.Value); ok {
					return Val{S: cx.num(n), T: t}
				}
				if isUnsigned(t) {
					if n, ok := constant.Uint64Val(tv.Value); ok && cx.bv {
						return Val{S: fmt.Sprintf("(_ bv%d 64)", n), T: t}
					}
				}
			case constant.Bool:
				if constant.BoolVal(tv.Value) {
					return Val{S: "true", T: t}
				}
				return Val{S: "false", T: t}
			case constant.String:
				return Val{S: cx.strLit(constant.StringVal(tv.Value)), T: t}
			}
		}
	}
	switch x := x.(type) {
	case *ast.ParenExpr:
		return e.expr(x.X)
	case *ast.BasicLit:
		e.fail(x, "literal without constant value: "+x.Value)
	case *ast.Ident:
		switch x.Name {
		case "true":
			return Val{S: "true", T: types.Typ[types.Bool]}
		case "false":
			return Val{S: "false", T: types.Typ[types.Bool]}
		case "nil":
			t := e.typeOf(x)
			return Val{S: cx.zeroOf(nilTypeFallback(t)), T: t}
		}
		if v, ok := e.vars[x.Name]; ok {
			return v
		}
		if e.info != nil {
			if obj := e.info.Uses[x]; obj != nil {
				if gv, ok := obj.(*types.Var); ok && gv.Parent() == gv.Pkg().Scope() {
					return e.global(gv)
				}
			}
		}
		e.fail(x, "unknown identifier "+x.Name)
	case *ast.UnaryExpr:
		v := e.expr(x.X)
		switch x.Op {
		case token.NOT:
			return Val{S: "(not " + v.S + ")", T: v.T}
		case token.SUB:
			if cx.bv {
				return Val{S: "(bvneg " + v.S + ")", T: v.T}
			}
			return Val{S: "(- " + v.S + ")", T: v.T}
		case token.ADD:
			return v
		case token.XOR:
			if cx.bv {
				return Val{S: "(bvnot " + v.S + ")", T: v.T}
			}
		}
		e.fail(x, "unary operator "+x.Op.String())
	case *ast.BinaryExpr:
		a := e.expr(x.X)
		b := e.expr(x.Y)
		if id, ok := x.Y.(*ast.Ident); ok && id.Name == "nil" && a.T != nil {
			b = Val{S: cx.zeroOf(a.T), T: a.T}
		} else if id, ok := x.X.(*ast.Ident); ok && id.Name == "nil" && b.T != nil {
			a = Val{S: cx.zeroOf(b.T), T: b.T}
		}
		t := defaultType(e.typeOf(x.X))
		if bt, ok := t.(*types.Basic); ok && bt.Kind() == types.UntypedNil {
			t = defaultType(e.typeOf(x.Y))
		}
		if tb, ok := defaultType(e.typeOf(x.X)).(*types.Basic); ok && tb.Info()&types.IsUntyped != 0 {
			t = defaultType(e.typeOf(x.Y))
		}
		if a.T != nil && !isUntyped(a.T) {
			t = a.T
		} else if b.T != nil && !isUntyped(b.T) {
			t = b.T
		}
		rt := defaultType(e.typeOf(x))
		if x.Op == token.SHL || x.Op == token.SHR {
			t = a.T
		}
		if _, isIf := t.Underlying().(*types.Interface); isIf && (x.Op == token.EQL || x.Op == token.NEQ) {
			// interface comparison with nil: tag test
			s := fmt.Sprintf("(= %s %s)", a.S, b.S)
			if x.Op == token.NEQ {
				s = "(not " + s + ")"
			}
			return Val{S: s, T: rt}
		}
		return Val{S: cx.binop(x.Op, a.S, b.S, t, rt), T: rt}
	case *ast.SelectorExpr:
		// package-qualified?
		if id, ok := x.X.(*ast.Ident); ok && e.info != nil {
			if _, isPkg := e.info.Uses[id].(*types.PkgName); isPkg {
				obj := e.info.Uses[x.Sel]
				if gv, ok := obj.(*types.Var); ok {
					return e.global(gv)
				}
				e.fail(x, "unsupported qualified identifier "+x.Sel.Name)
			}
		}
		base := e.expr(x.X)
		return e.selectField(x, base, x.Sel.Name)
	case *ast.StarExpr:
		p := e.expr(x.X)
		pt, ok := p.T.Underlying().(*types.Pointer)
		if !ok {
			e.fail(x, "deref of non-pointer")
		}
		return e.loadStruct(x, p.S, pt.Elem())
	case *ast.IndexExpr:
		base := e.expr(x.X)
		switch bt := base.T.Underlying().(type) {
		case *types.Basic:
			idx := e.expr(x.Index)
			return Val{S: fmt.Sprintf("(s_at %s %s)", base.S, idx.S), T: types.Typ[types.Uint8]}
		case *types.Slice:
			idx := e.expr(x.Index)
			sn := cx.sortOf(base.T)
			return Val{S: fmt.Sprintf("(select (arr_%s %s) %s)", sn, base.S, idx.S), T: bt.Elem()}
		case *types.Array:
			idx := e.expr(x.Index)
			return Val{S: fmt.Sprintf("(select %s %s)", base.S, idx.S), T: bt.Elem()}
		case *types.Map:
			idx := e.expr(x.Index)
			kv, kh := cx.mapKeys(bt)
			if e.heap == nil {
				e.fail(x, "map access in a heap-free spec function")
			}
			return Val{S: fmt.Sprintf("(ite (select (select %s %s) %s) (select (select %s %s) %s) %s)", e.heap(kh), base.S, idx.S, e.heap(kv), base.S, idx.S, cx.zeroOf(bt.Elem())), T: bt.Elem()}
		}
		e.fail(x, "index of "+base.T.String())
	case *ast.SliceExpr:
		base := e.expr(x.X)
		if !isString(base.T) {
			e.fail(x, "slice expression only supported on strings in specs")
		}
		lo := cx.num(0)
		if x.Low != nil {
			lo = e.expr(x.Low).S
		}
		hi := fmt.Sprintf("(s_len %s)", base.S)
		if x.High != nil {
			hi = e.expr(x.High).S
		}
		return Val{S: e.subStr(base.S, lo, hi), T: base.T}
	case *ast.CompositeLit:
		t := e.typeOf(x)
		if isBuilder(t) {
			return Val{S: cx.zeroOf(t), T: t}
		}
		st, ok := t.Underlying().(*types.Struct)
		if !ok {
			e.fail(x, "composite literal of "+t.String())
		}
		fs := make([]string, st.NumFields())
		for i := range fs {
			fs[i] = cx.zeroOf(st.Field(i).Type())
		}
		for i, el := range x.Elts {
			if kv, ok := el.(*ast.KeyValueExpr); ok {
				name := kv.Key.(*ast.Ident).Name
				for j := 0; j < st.NumFields(); j++ {
					if st.Field(j).Name() == name {
						fs[j] = e.expr(kv.Value).S
					}
				}
			} else {
				fs[i] = e.expr(el).S
			}
		}
		sn := cx.sortOf(t)
		return Val{S: fmt.Sprintf("(mk_%s %s)", sn, strings.Join(fs, " ")), T: t}
	case *ast.TypeAssertExpr:
		// x.(*T): the payload of the interface value, read as a *T (the clause must guard it with isType)
		v := e.expr(x.X)
		t := e.typeOf(x)
		if _, ok := t.Underlying().(*types.Pointer); !ok {
			e.fail(x, "type assertion to a non-pointer type in a specification")
		}
		return Val{S: fmt.Sprintf("(if_val %s)", v.S), T: t}
	case *ast.CallExpr:
		return e.call(x)
	}
	e.fail(x, fmt.Sprintf("unsupported expression %T", x))
	return Val{}
}

func isUntyped(t types.Type) bool {
	b, ok := t.(*types.Basic)
	return ok && b.Info()&types.IsUntyped != 0
}

func nilTypeFallback(t types.Type) types.Type {
	if b, ok := t.(*types.Basic); ok && b.Kind() == types.UntypedNil {
		return types.NewPointer(types.Typ[types.Int])
	}
	return t
}

func (e *Env) subStr(s, lo, hi string) string {
	cx := e.cx
	t := fmt.Sprintf("(s_sub %s %s %s)", s, lo, hi)
	// axioms are global (quantified with patterns), declared once
	if cx.uf["ax_s_sub"] == "" {
		is := cx.intSort()
		le, lt, plus, minus := "<=", "<", "+", "-"
		if cx.bv {
			le, lt, plus, minus = "bvsle", "bvslt", "bvadd", "bvsub"
		}
		cx.declUF("ax_s_sub", fmt.Sprintf("(assert (forall ((s Str) (a %s) (b %s)) (! (=> (and (%s %s a) (%s a b)) (= (s_len (s_sub s a b)) (%s b a))) :pattern ((s_sub s a b)))))\n(assert (forall ((s Str) (a %s) (b %s) (i %s)) (! (=> (and (%s %s i) (%s i (%s b a))) (= (s_at (s_sub s a b) i) (s_at s (%s a i)))) :pattern ((s_at (s_sub s a b) i)))))", is, is, le, cx.num(0), le, minus, is, is, is, le, cx.num(0), lt, minus, plus))
	}
	return t
}

func (e *Env) global(gv *types.Var) Val {
	cx := e.cx
	// package-level variable: address is a named constant cell; value read from its cell heap
	if e.heap == nil {
		e.fail(nil, "global "+gv.Name()+" in heap-free spec function")
	}
	if !cx.w.StoredGlobals[gv.Pkg().Name()+"."+gv.Name()] && !cx.inInit {
		n := "gv_" + gv.Pkg().Name() + "_" + gv.Name()
		cx.declUF(n, fmt.Sprintf("(declare-const %s %s)", n, cx.sortOf(gv.Type())))
		return Val{S: n, T: gv.Type()}
	}
	name := "g_" + gv.Pkg().Name() + "_" + gv.Name()
	cx.declUF(name, fmt.Sprintf("(declare-const %s %s)", name, cx.intSort()))
	key := cx.cellKey(gv.Type())
	return Val{S: fmt.Sprintf("(select %s %s)", e.heap(key), name), T: gv.Type()}
}

func fieldIndex(st *types.Struct, name string) int {
	for i := 0; i < st.NumFields(); i++ {
		if st.Field(i).Name() == name {
			return i
		}
	}
	return -1
}

func (e *Env) selectField(n ast.Node, base Val, name string) Val {
	cx := e.cx
	if pt, ok := base.T.Underlying().(*types.Pointer); ok {
		st, ok := pt.Elem().Underlying().(*types.Struct)
		if !ok {
			e.fail(n, "field of pointer to non-struct")
		}
		i := fieldIndex(st, name)
		if i < 0 {
			e.fail(n, "no field "+name)
		}
		if e.heap == nil {
			e.fail(n, "heap access ("+name+") in a heap-free spec function")
		}
		key, ft := cx.fieldKey(pt.Elem(), i)
		return Val{S: fmt.Sprintf("(select %s %s)", e.heap(key), base.S), T: ft}
	}
	if st, ok := base.T.Underlying().(*types.Struct); ok {
		i := fieldIndex(st, name)
		if i < 0 {
			e.fail(n, "no field "+name)
		}
		sn := cx.sortOf(base.T)
		return Val{S: fmt.Sprintf("(%s_%s %s)", sn, name, base.S), T: st.Field(i).Type()}
	}
	e.fail(n, "selector on "+base.T.String())
	return Val{}
}

func (e *Env) loadStruct(n ast.Node, ptr string, t types.Type) Val {
	cx := e.cx
	st, ok := t.Underlying().(*types.Struct)
	if !ok {
		if e.heap == nil {
			e.fail(n, "heap access in heap-free spec function")
		}
		return Val{S: fmt.Sprintf("(select %s %s)", e.heap(cx.cellKey(t)), ptr), T: t}
	}
	var fs []string
	for i := 0; i < st.NumFields(); i++ {
		key, _ := cx.fieldKey(t, i)
		fs = append(fs, fmt.Sprintf("(select %s %s)", e.heap(key), ptr))
	}
	return Val{S: fmt.Sprintf("(mk_%s %s)", cx.sortOf(t), strings.Join(fs, " ")), T: t}
}

func (e *Env) call(x *ast.CallExpr) Val {
	cx := e.cx
	// conversion?
	if e.info != nil {
		if tv, ok := e.info.Types[x.Fun]; ok && tv.IsType() {
			v := e.expr(x.Args[0])
			return e.convert(x, v, tv.Type)
		}
	}
	name := ""
	var fobj types.Object
	switch f := x.Fun.(type) {
	case *ast.Ident:
		name = f.Name
		if e.info != nil {
			fobj = e.info.Uses[f]
		}
	case *ast.SelectorExpr:
		name = f.Sel.Name
		if e.info != nil {
			fobj = e.info.Uses[f.Sel]
		}
	case *ast.IndexExpr: // explicit instantiation old[int](x)
		if id, ok := f.X.(*ast.Ident); ok {
			name = id.Name
		}
	}
	switch name {
	case "len":
		v := e.expr(x.Args[0])
		switch v.T.Underlying().(type) {
		case *types.Basic:
			return Val{S: fmt.Sprintf("(s_len %s)", v.S), T: types.Typ[types.Int]}
		case *types.Slice:
			return Val{S: fmt.Sprintf("(len_%s %s)", cx.sortOf(v.T), v.S), T: types.Typ[types.Int]}
		}
		e.fail(x, "len of "+v.T.String())
	case "old":
		if e.old == nil {
			e.fail(x, "old() not available here")
		}
		return e.old.exprWithInfo(x.Args[0], e)
	case "atEntry":
		if e.loopEntry == nil {
			e.fail(x, "atEntry() is only available in loop invariants")
		}
		return e.loopEntry.exprWithInfo(x.Args[0], e)
	case "iter":
		if e.iter == nil {
			e.fail(x, "iter() is only available in obligations checked at the back edge of a range loop or a counting loop")
		}
		return *e.iter
	case "atHead":
		if e.loopHead == nil {
			e.fail(x, "atHead() is only available in obligations checked at a loop's back edge (each / invariant step)")
		}
		return e.loopHead.exprWithInfo(x.Args[0], e)
	case "implies":
		a, b := e.expr(x.Args[0]), e.expr(x.Args[1])
		return Val{S: fmt.Sprintf("(=> %s %s)", a.S, b.S), T: types.Typ[types.Bool]}
	case "ite":
		c, a, b := e.expr(x.Args[0]), e.expr(x.Args[1]), e.expr(x.Args[2])
		t := a.T
		if isUntyped(t) {
			t = b.T
		}
		return Val{S: fmt.Sprintf("(ite %s %s %s)", c.S, a.S, b.S), T: t}
	case "forall", "exists":
		lo, hi := e.expr(x.Args[0]), e.expr(x.Args[1])
		fl, ok := x.Args[2].(*ast.FuncLit)
		if !ok || len(fl.Type.Params.List) != 1 || len(fl.Type.Params.List[0].Names) != 1 {
			e.fail(x, name+" needs a func(k int) bool literal")
		}
		kn := fl.Type.Params.List[0].Names[0].Name
		bound := cx.fresh("q_" + kn)
		ne := e.with(kn, Val{S: bound, T: types.Typ[types.Int]})
		if e.old != nil {
			oe := *e.old
			oe.vars = map[string]Val{}
			for k, v := range e.old.vars {
				oe.vars[k] = v
			}
			oe.vars[kn] = Val{S: bound, T: types.Typ[types.Int]}
			ne.old = &oe
		}
		body := ne.block(fl.Body.List)
		le, lt := "<=", "<"
		if cx.bv {
			le, lt = "bvsle", "bvslt"
		}
		rng := fmt.Sprintf("(and (%s %s %s) (%s %s %s))", le, lo.S, bound, lt, bound, hi.S)
		if name == "forall" {
			return Val{S: fmt.Sprintf("(forall ((%s %s)) (=> %s %s))", bound, cx.intSort(), rng, body.S), T: types.Typ[types.Bool]}
		}
		return Val{S: fmt.Sprintf("(exists ((%s %s)) (and %s %s))", bound, cx.intSort(), rng, body.S), T: types.Typ[types.Bool]}
	case "forallKeys":
		m := e.expr(x.Args[0])
		mt, ok := m.T.Underlying().(*types.Map)
		fl, ok2 := x.Args[1].(*ast.FuncLit)
		if !ok || !ok2 || len(fl.Type.Params.List) != 1 || len(fl.Type.Params.List[0].Names) != 1 {
			e.fail(x, "forallKeys(m, func(k K) bool {...})")
		}
		kn := fl.Type.Params.List[0].Names[0].Name
		bound := cx.fresh("q_" + kn)
		ne := e.with(kn, Val{S: bound, T: mt.Key()})
		body := ne.block(fl.Body.List)
		_, kh := cx.mapKeys(mt)
		return Val{S: fmt.Sprintf("(forall ((%s %s)) (=> (select (select %s %s) %s) %s))", bound, cx.sortOf(mt.Key()), e.heap(kh), m.S, bound, body.S), T: types.Typ[types.Bool]}
	case "fold":
		return e.foldCall(x)
	case "foldH":
		return e.foldHCall(x)
	case "push":
		sl := e.expr(x.Args[0])
		el := e.expr(x.Args[1])
		sn := cx.sortOf(sl.T)
		return Val{S: fmt.Sprintf("(mk_%s (store (arr_%s %s) (len_%s %s) %s) (%s (len_%s %s) %s))", sn, sn, sl.S, sn, sl.S, el.S, cx.op("+"), sn, sl.S, cx.num(1)), T: sl.T}
	case "built":
		// built(b) : the text written so far to a strings.Builder, as an Out history (only usable as fold argument)
		v := e.expr(x.Args[0])
		return Val{S: v.S, T: v.T}
	case "seen":
		if e.seen == nil {
			e.fail(x, "seen() is only available in invariants of a loop ranging over a map")
		}
		k := e.expr(x.Args[0])
		return Val{S: e.seen(k.S), T: types.Typ[types.Bool]}
	case "fresh":
		v := e.expr(x.Args[0])
		if e.fresh == nil {
			e.fail(x, "fresh() is only available in postconditions")
		}
		return Val{S: e.fresh(v.S), T: types.Typ[types.Bool]}
	case "has":
		m := e.expr(x.Args[0])
		k := e.expr(x.Args[1])
		mt, ok := m.T.Underlying().(*types.Map)
		if !ok {
			e.fail(x, "has() needs a map")
		}
		_, kh := cx.mapKeys(mt)
		return Val{S: fmt.Sprintf("(select (select %s %s) %s)", e.heap(kh), m.S, k.S), T: types.Typ[types.Bool]}
	case "traceSeq", "fullSeq":
		return e.traceSeq(x, name == "fullSeq", false)
	case "writeSeq":
		return e.traceSeq(x, true, true)
	case "ncalls":
		name := e.strArg(x, 0)
		n := 0
		for _, ev := range e.trace {
			if ev.name == name {
				n++
			}
		}
		return Val{S: cx.num(int64(n)), T: types.Typ[types.Int]}
	case "callArg":
		// callArg[T](name, k, i): i-th argument (receiver first) of the k-th call of name on this path
		name := e.strArg(x, 0)
		k, i := e.intArg(x, 1), e.intArg(x, 2)
		ev := e.traceAt(x, name, k)
		if ev == nil || i >= len(ev.args) {
			// no such call on this path: the clause must guard it with ncalls; yield an unconstrained value of the type
			t := e.typeOf(x)
			n := cx.fresh("nocall")
			cx.declUF(n, fmt.Sprintf("(declare-const %s %s)", n, cx.sortOf(t)))
			return Val{S: n, T: t}
		}
		return ev.args[i]
	case "callResult":
		name := e.strArg(x, 0)
		k := e.intArg(x, 1)
		ev := e.traceAt(x, name, k)
		if ev == nil || ev.res.S == "" {
			t := e.typeOf(x)
			n := cx.fresh("nocall")
			cx.declUF(n, fmt.Sprintf("(declare-const %s %s)", n, cx.sortOf(t)))
			return Val{S: n, T: t}
		}
		return ev.res
	case "atCall":
		// atCall(name, k, expr): expr evaluated in the state in which the k-th call of name was made
		name := e.strArg(x, 0)
		k := e.intArg(x, 1)
		ev := e.traceAt(x, name, k)
		if ev == nil {
			return Val{S: "true", T: types.Typ[types.Bool]}
		}
		if e.tsnap == nil {
			e.fail(x, "atCall() not available here")
		}
		se := e.tsnap(*ev)
		se.old = e.old
		return se.exprWithInfo2(x.Args[2], e)
	case "callOrder":
		// callOrder(a, i, b, j): the i-th call of a precedes the j-th call of b on this path (true if either is absent)
		a, b := e.strArg(x, 0), e.strArg(x, 2)
		i, j := e.intArg(x, 1), e.intArg(x, 3)
		pa, pb := e.tracePos(a, i), e.tracePos(b, j)
		if pa < 0 || pb < 0 || pa < pb {
			return Val{S: "true", T: types.Typ[types.Bool]}
		}
		return Val{S: "false", T: types.Typ[types.Bool]}
	case "fnIs":
		// fnIs(f, "pkg.Func$1"): the function value f is (a closure of) the named function
		v := e.expr(x.Args[0])
		key := e.strArg(x, 1)
		fn := cx.w.Funcs[key]
		if fn == nil {
			e.fail(x, "fnIs: no function "+key)
		}
		cx.sortOf(fn.Signature)
		cx.declUF("fnid", "(declare-fun fnid (Fn) Int)")
		return Val{S: fmt.Sprintf("(= (fnid %s) %d)", v.S, cx.closureID(key)), T: types.Typ[types.Bool]}
	case "capturedVar":
		// capturedVar[T]("pkg.Func$1", "name", f): current value of the variable `name` captured by closure value f
		key := e.strArg(x, 0)
		vn := e.strArg(x, 1)
		v := e.expr(x.Args[2])
		fn := cx.w.Funcs[key]
		if fn == nil {
			e.fail(x, "capturedVar: no function "+key)
		}
		if e.heap == nil {
			e.fail(x, "capturedVar in a heap-free spec function")
		}
		// by name; if the literal captures no variable of that name (renamed), the only captured variable of type T
		if ix, ok := x.Fun.(*ast.IndexExpr); ok {
			byName := false
			for _, fv := range fn.FreeVars {
				byName = byName || fv.Name() == vn
			}
			if !byName {
				want := e.typeOf(ix.Index)
				cands := []string{}
				for _, fv := range fn.FreeVars {
					if pt, ok := fv.Type().(*types.Pointer); ok && types.Identical(pt.Elem(), want) {
						cands = append(cands, fv.Name())
					}
				}
				if len(cands) == 1 {
					vn = cands[0]
				}
			}
		}
		for i, fv := range fn.FreeVars {
			if fv.Name() != vn {
				continue
			}
			et := fv.Type().(*types.Pointer).Elem()
			name := "clo_" + sanitize(key)
			var sorts []string
			for range fn.FreeVars {
				sorts = append(sorts, cx.intSort())
			}
			cx.sortOf(fn.Signature)
			cx.declUF(name, fmt.Sprintf("(declare-fun %s (%s) Fn)", name, strings.Join(sorts, " ")))
			for j := range fn.FreeVars {
				cx.declUF(fmt.Sprintf("%s_b%d", name, j), fmt.Sprintf("(declare-fun %s_b%d (Fn) %s)", name, j, cx.intSort()))
			}
			return Val{S: fmt.Sprintf("(select %s (%s_b%d %s))", e.heap(cx.cellKey(et)), name, i, v.S), T: et}
		}
		e.fail(x, "capturedVar: "+key+" does not capture "+vn)
	case "isType":
		// isType[*T](x): the dynamic type of interface value x is *T
		v := e.expr(x.Args[0])
		ix, ok := x.Fun.(*ast.IndexExpr)
		if !ok {
			e.fail(x, "isType[T](x) needs an explicit type argument")
		}
		t := e.typeOf(ix.Index)
		return Val{S: fmt.Sprintf("(= (if_tag %s) %s)", v.S, cx.num(int64(cx.tagOf(t)))), T: types.Typ[types.Bool]}
	case "eq":
		a, b := e.expr(x.Args[0]), e.expr(x.Args[1])
		return Val{S: fmt.Sprintf("(= %s %s)", a.S, b.S), T: types.Typ[types.Bool]}
	case "isNil":
		v := e.expr(x.Args[0])
		switch v.T.Underlying().(type) {
		case *types.Interface:
			return Val{S: fmt.Sprintf("(or (= (if_tag %s) %s) (= (if_val %s) %s))", v.S, cx.num(0), v.S, cx.num(0)), T: types.Typ[types.Bool]}
		case *types.Pointer, *types.Map:
			return Val{S: fmt.Sprintf("(= %s %s)", v.S, cx.num(0)), T: types.Typ[types.Bool]}
		}
		e.fail(x, "isNil of "+v.T.String())
	case "isNilIface":
		v := e.expr(x.Args[0])
		return Val{S: fmt.Sprintf("(= (if_tag %s) %s)", v.S, cx.num(0)), T: types.Typ[types.Bool]}
	case "isNilPtrIface":
		v := e.expr(x.Args[0])
		return Val{S: fmt.Sprintf("(= (if_val %s) %s)", v.S, cx.num(0)), T: types.Typ[types.Bool]}
	case "min", "max":
		a, b := e.expr(x.Args[0]), e.expr(x.Args[1])
		c := cx.binop(token.LSS, a.S, b.S, a.T, types.Typ[types.Bool])
		if name == "max" {
			return Val{S: fmt.Sprintf("(ite %s %s %s)", c, b.S, a.S), T: a.T}
		}
		return Val{S: fmt.Sprintf("(ite %s %s %s)", c, a.S, b.S), T: a.T}
	}
	// spec function call
	fn, _ := fobj.(*types.Func)
	if fn == nil {
		e.fail(x, "call of unknown function "+name)
	}
	key := fn.Pkg().Name() + "." + fn.Name()
	sf := cx.w.SpecDecls[key]
	if sf == nil {
		e.fail(x, "call of "+key+" which is not a spec function (declare it in "+contractFile+")")
	}
	var args []Val
	for _, a := range x.Args {
		args = append(args, e.expr(a))
	}
	return e.applySpec(x, sf, args)
}

func (e *Env) strArg(x *ast.CallExpr, i int) string {
	if tv, ok := e.info.Types[x.Args[i]]; ok && tv.Value != nil && tv.Value.Kind() == constant.String {
		return constant.StringVal(tv.Value)
	}
	e.fail(x, "constant string argument expected")
	return ""
}

func (e *Env) intArg(x *ast.CallExpr, i int) int {
	if tv, ok := e.info.Types[x.Args[i]]; ok && tv.Value != nil && tv.Value.Kind() == constant.Int {
		n, _ := constant.Int64Val(tv.Value)
		return int(n)
	}
	e.fail(x, "constant integer argument expected")
	return 0
}

func (e *Env) tracePos(name string, k int) int {
	n := 0
	for i, ev := range e.trace {
		if ev.name == name {
			if n == k {
				return i
			}
			n++
		}
	}
	return -1
}

func (e *Env) traceAt(x ast.Node, name string, k int) *traceEv {
	if i := e.tracePos(name, k); i >= 0 {
		return &e.trace[i]
	}
	return nil
}

// exprWithInfo2: like exprWithInfo but keeps e's own old environment (used by atCall, where old() still means the
// unit's entry state).
func (e *Env) exprWithInfo2(x ast.Expr, from *Env) Val {
	n := *e
	n.info = from.info
	n.pkg = from.pkg
	n.side = from.side
	n.trace = from.trace
	n.tsnap = from.tsnap
	n.vars = map[string]Val{}
	for k, v := range from.vars {
		n.vars[k] = v
	}
	for k, v := range e.vars {
		n.vars[k] = v
	}
	return n.expr(x)
}

// exprWithInfo evaluates x in environment e (the old-state env) but with the type info / bound variables of the calling env.
func (e *Env) exprWithInfo(x ast.Expr, from *Env) Val {
	n := *e
	n.info = from.info
	n.pkg = from.pkg
	n.side = from.side
	n.old = nil
	// quantified / let-bound variables of the calling env that the old env does not define stay visible
	n.vars = map[string]Val{}
	for k, v := range from.vars {
		n.vars[k] = v
	}
	for k, v := range e.vars {
		n.vars[k] = v
	}
	n.old = &n
	return n.expr(x)
}

func (e *Env) convert(n ast.Node, v Val, to types.Type) Val {
	cx := e.cx
	switch {
	case isIntType(to) && isIntType(v.T):
		return Val{S: cx.wrap(v.S, to), T: to}
	case isIntType(to) && isUntyped(v.T):
		return Val{S: v.S, T: to}
	case isString(to) && isIntType(v.T):
		return Val{S: fmt.Sprintf("(s_byte %s)", v.S), T: to}
	case isString(to) && isString(v.T):
		return Val{S: v.S, T: to}
	case isBool(to) && isBool(v.T):
		return Val{S: v.S, T: to}
	}
	if types.Identical(to.Underlying(), v.T.Underlying()) {
		return Val{S: v.S, T: to}
	}
	e.fail(n, "conversion "+v.T.String()+" -> "+to.String())
	return Val{}
}

func hasPointerParam(sig *types.Signature) bool {
	for i := 0; i < sig.Params().Len(); i++ {
		if needsHeap(sig.Params().At(i).Type()) {
			return true
		}
	}
	return false
}

func needsHeap(t types.Type) bool {
	switch u := t.Underlying().(type) {
	case *types.Pointer, *types.Map:
		return true
	case *types.Slice:
		return needsHeap(u.Elem())
	}
	return false
}

// specIsMacro: spec functions that read the heap are expanded at the call site.
func (cx *Cx) specIsMacro(sf *SpecFn) bool {
	if hasPointerParam(sf.Obj.Type().(*types.Signature)) {
		return true
	}
	// functions marked by a doc comment "//xvc:macro"
	if sf.Decl.Doc != nil {
		for _, c := range sf.Decl.Doc.List {
			if strings.Contains(c.Text, "xvc:macro") {
				return true
			}
		}
	}
	return false
}

func specSMTName(key string) string { return "f_" + strings.ReplaceAll(key, ".", "_") }

func (e *Env) applySpec(n ast.Node, sf *SpecFn, args []Val) Val {
	cx := e.cx
	sig := sf.Obj.Type().(*types.Signature)
	rt := sig.Results().At(0).Type()
	if sf.Decl.Body == nil {
		// declared without body (uninterpreted spec symbol)
		e.fail(n, "spec function without body: "+sf.Key)
	}
	if cx.opaqueHere(sf) {
		cx.useSpec(sf.Key)
		var as []string
		for _, a := range args {
			as = append(as, a.S)
		}
		if len(as) == 0 {
			return Val{S: specSMTName(sf.Key), T: rt}
		}
		return Val{S: fmt.Sprintf("(%s %s)", specSMTName(sf.Key), strings.Join(as, " ")), T: rt}
	}
	if cx.specIsMacro(sf) {
		if e.depth > 12 {
			e.fail(n, "macro spec function expansion too deep (recursive heap-reading spec function?) "+sf.Key)
		}
		ne := &Env{cx: cx, vars: map[string]Val{}, heap: e.heap, info: sf.Pkg.TypesInfo, pkg: sf.Pkg.Name, depth: e.depth + 1, side: e.side}
		if e.old != nil {
			// old() inside a macro refers to the caller's old state with the same arguments evaluated there: not supported; keep nil
			ne.old = nil
		}
		i := 0
		for _, f := range sf.Decl.Type.Params.List {
			for _, nm := range f.Names {
				ne.vars[nm.Name] = args[i]
				i++
			}
		}
		v := ne.block(sf.Decl.Body.List)
		v.T = rt
		return v
	}
	cx.useSpec(sf.Key)
	var as []string
	for _, a := range args {
		as = append(as, a.S)
	}
	if len(as) == 0 {
		return Val{S: specSMTName(sf.Key), T: rt}
	}
	return Val{S: fmt.Sprintf("(%s %s)", specSMTName(sf.Key), strings.Join(as, " ")), T: rt}
}

func isUninterpreted(sf *SpecFn) bool {
	return hasDirective(sf, "xvc:uninterpreted")
}

func hasDirective(sf *SpecFn, d string) bool {
	if sf.Decl.Doc != nil {
		for _, c := range sf.Decl.Doc.List {
			if strings.Contains(c.Text, d) {
				return true
			}
		}
	}
	return false
}

// opaqueHere: functions defined with bit operations (xvc:bvonly) are uninterpreted symbols outside bit-vector mode.
func (cx *Cx) opaqueHere(sf *SpecFn) bool {
	return isUninterpreted(sf) || (!cx.bv && hasDirective(sf, "xvc:bvonly"))
}

func (cx *Cx) useSpec(key string) {
	if !cx.specUsed[key] {
		cx.specUsed[key] = true
		cx.specTodo = append(cx.specTodo, key)
	}
}

// block translates a restricted statement list (if/return/:=/switch) into one term.
func (e *Env) block(stmts []ast.Stmt) Val {
	if len(stmts) == 0 {
		e.fail(nil, "spec function body falls off the end")
	}
	s := stmts[0]
	rest := stmts[1:]
	switch s := s.(type) {
	case *ast.ReturnStmt:
		if len(s.Results) != 1 {
			e.fail(s, "spec functions return exactly one value")
		}
		return e.expr(s.Results[0])
	case *ast.AssignStmt:
		if len(s.Lhs) != 1 || len(s.Rhs) != 1 || (s.Tok != token.DEFINE && s.Tok != token.ASSIGN) {
			e.fail(s, "only single := / = statements are allowed in spec functions")
		}
		if s.Tok == token.ASSIGN {
			// functional update of a local value variable: x = e   or   x.f = e
			rhs := e.expr(s.Rhs[0])
			switch l := s.Lhs[0].(type) {
			case *ast.Ident:
				old, ok := e.vars[l.Name]
				if !ok {
					e.fail(s, "assignment to unknown variable "+l.Name)
				}
				ln := e.cx.fresh("l_" + l.Name)
				body := e.with(l.Name, Val{S: ln, T: old.T}).block(rest)
				return Val{S: fmt.Sprintf("(let ((%s %s)) %s)", ln, rhs.S, body.S), T: body.T}
			case *ast.SelectorExpr:
				id, ok := l.X.(*ast.Ident)
				if !ok {
					e.fail(s, "only x.f = e on a local struct variable is allowed")
				}
				old, ok := e.vars[id.Name]
				if !ok {
					e.fail(s, "assignment to unknown variable "+id.Name)
				}
				st, ok := old.T.Underlying().(*types.Struct)
				if !ok {
					e.fail(s, "x.f = e needs a struct value variable (not a pointer)")
				}
				sn := e.cx.sortOf(old.T)
				var fs []string
				for i := 0; i < st.NumFields(); i++ {
					if st.Field(i).Name() == l.Sel.Name {
						fs = append(fs, rhs.S)
					} else {
						fs = append(fs, fmt.Sprintf("(%s_%s %s)", sn, st.Field(i).Name(), old.S))
					}
				}
				ln := e.cx.fresh("l_" + id.Name)
				body := e.with(id.Name, Val{S: ln, T: old.T}).block(rest)
				return Val{S: fmt.Sprintf("(let ((%s (mk_%s %s))) %s)", ln, sn, strings.Join(fs, " "), body.S), T: body.T}
			}
			e.fail(s, "unsupported assignment target in spec function")
		}
		v := e.expr(s.Rhs[0])
		if isUntyped(v.T) {
			v.T = defaultType(v.T)
		}
		name := s.Lhs[0].(*ast.Ident).Name
		// let-binding to keep terms small
		ln := e.cx.fresh("l_" + name)
		body := e.with(name, Val{S: ln, T: v.T}).block(rest)
		return Val{S: fmt.Sprintf("(let ((%s %s)) %s)", ln, v.S, body.S), T: body.T}
	case *ast.DeclStmt:
		e.fail(s, "var declarations are not allowed in spec functions (use :=)")
	case *ast.IfStmt:
		if s.Init != nil {
			e.fail(s, "if with init statement not allowed in spec functions")
		}
		c := e.expr(s.Cond)
		thenStmts := append(append([]ast.Stmt{}, s.Body.List...), rest...)
		var elseStmts []ast.Stmt
		switch el := s.Else.(type) {
		case nil:
			elseStmts = rest
		case *ast.BlockStmt:
			elseStmts = append(append([]ast.Stmt{}, el.List...), rest...)
		case *ast.IfStmt:
			elseStmts = append([]ast.Stmt{el}, rest...)
		}
		a := e.block(thenStmts)
		b := e.block(elseStmts)
		t := a.T
		if isUntyped(t) {
			t = b.T
		}
		return Val{S: fmt.Sprintf("(ite %s %s %s)", c.S, a.S, b.S), T: t}
	case *ast.SwitchStmt:
		if s.Init != nil {
			e.fail(s, "switch with init not allowed in spec functions")
		}
		// convert to if-chain
		var tag *Val
		var tagT types.Type
		if s.Tag != nil {
			v := e.expr(s.Tag)
			tag = &v
			tagT = defaultType(e.typeOf(s.Tag))
		}
		var def []ast.Stmt
		hasDef := false
		type arm struct {
			cond string
			body []ast.Stmt
		}
		var arms []arm
		for _, c := range s.Body.List {
			cc := c.(*ast.CaseClause)
			if cc.List == nil {
				def = cc.Body
				hasDef = true
				continue
			}
			var cs []string
			for _, x := range cc.List {
				v := e.expr(x)
				if tag != nil {
					cs = append(cs, e.cx.binop(token.EQL, tag.S, v.S, tagT, types.Typ[types.Bool]))
				} else {
					cs = append(cs, v.S)
				}
			}
			cond := cs[0]
			if len(cs) > 1 {
				cond = "(or " + strings.Join(cs, " ") + ")"
			}
			arms = append(arms, arm{cond, cc.Body})
		}
		var elseV Val
		if hasDef {
			elseV = e.block(append(append([]ast.Stmt{}, def...), rest...))
		} else {
			elseV = e.block(rest)
		}
		for i := len(arms) - 1; i >= 0; i-- {
			a := e.block(append(append([]ast.Stmt{}, arms[i].body...), rest...))
			t := a.T
			if isUntyped(t) {
				t = elseV.T
			}
			elseV = Val{S: fmt.Sprintf("(ite %s %s %s)", arms[i].cond, a.S, elseV.S), T: t}
		}
		return elseV
	case *ast.BlockStmt:
		return e.block(append(append([]ast.Stmt{}, s.List...), rest...))
	}
	e.fail(s, fmt.Sprintf("statement %T not allowed in spec functions", s))
	return Val{}
}

// foldHCall translates foldH(stepByte, stepStr, init, x): a fold over the write history of a strings.Builder
// (WriteByte -> stepByte, WriteString -> stepStr); for a string x the history is s_hist(x).
func (e *Env) foldHCall(x *ast.CallExpr) Val {
	cx := e.cx
	if len(x.Args) != 4 {
		e.fail(x, "foldH(stepByte, stepStr, init, x)")
	}
	var keys []string
	for i := 0; i < 2; i++ {
		var fobj types.Object
		switch f := x.Args[i].(type) {
		case *ast.Ident:
			fobj = e.info.Uses[f]
		case *ast.SelectorExpr:
			fobj = e.info.Uses[f.Sel]
		}
		fn, _ := fobj.(*types.Func)
		if fn == nil {
			e.fail(x, "foldH needs named spec step functions")
		}
		key := fn.Pkg().Name() + "." + fn.Name()
		if cx.w.SpecDecls[key] == nil {
			e.fail(x, "foldH step "+key+" is not a spec function")
		}
		keys = append(keys, key)
	}
	init := e.expr(x.Args[2])
	arg := e.expr(x.Args[3])
	cx.declOut()
	cx.useSpec(keys[0])
	cx.useSpec(keys[1])
	name := "foldH_" + sanitize(keys[0]) + "_" + sanitize(keys[1])
	if cx.foldHUsed == nil {
		cx.foldHUsed = map[string][3]string{}
	}
	if _, ok := cx.foldHUsed[name]; !ok {
		cx.foldHUsed[name] = [3]string{keys[0], keys[1], cx.sortOf(init.T)}
		cx.foldHOrd = append(cx.foldHOrd, name)
	}
	cx.useSpec("foldH:" + name)
	if ce, ok := x.Args[2].(*ast.CallExpr); ok && len(ce.Args) == 0 {
		cx.noteInit(name, init.S)
	}
	if isBuilder(arg.T) {
		return Val{S: fmt.Sprintf("(%s %s %s)", name, init.S, arg.S), T: init.T}
	}
	if !isString(arg.T) {
		e.fail(x, "foldH over "+arg.T.String())
	}
	cx.declUF("s_hist", "(declare-fun s_hist (Str) Out)")
	return Val{S: fmt.Sprintf("(%s %s (s_hist %s))", name, init.S, arg.S), T: init.T}
}

// foldCall translates fold(step, init, x): x is a string, or built(b) for a strings.Builder.
func (e *Env) foldCall(x *ast.CallExpr) Val {
	cx := e.cx
	if len(x.Args) != 3 {
		e.fail(x, "fold(step, init, s)")
	}
	var fobj types.Object
	switch f := x.Args[0].(type) {
	case *ast.Ident:
		fobj = e.info.Uses[f]
	case *ast.SelectorExpr:
		fobj = e.info.Uses[f.Sel]
	}
	fn, _ := fobj.(*types.Func)
	if fn == nil {
		e.fail(x, "fold needs a named spec step function")
	}
	key := fn.Pkg().Name() + "." + fn.Name()
	sf := cx.w.SpecDecls[key]
	if sf == nil {
		e.fail(x, "fold step "+key+" is not a spec function")
	}
	init := e.expr(x.Args[1])
	arg := e.expr(x.Args[2])
	fi := cx.foldFor(sf)
	if ce, ok := x.Args[1].(*ast.CallExpr); ok && len(ce.Args) == 0 {
		cx.noteInit(fi.nameO, init.S)
	}
	if isBuilder(arg.T) {
		return Val{S: fmt.Sprintf("(%s %s %s)", fi.nameO, init.S, arg.S), T: init.T}
	}
	if !isString(arg.T) {
		e.fail(x, "fold over "+arg.T.String())
	}
	return Val{S: fmt.Sprintf("(%s %s %s (s_len %s))", fi.nameS, init.S, arg.S, arg.S), T: init.T}
}

func (cx *Cx) foldFor(sf *SpecFn) *foldInfo {
	if fi := cx.foldUsed[sf.Key]; fi != nil {
		cx.useSpec("fold:" + sf.Key)
		return fi
	}
	sig := sf.Obj.Type().(*types.Signature)
	st := cx.sortOf(sig.Params().At(0).Type())
	cx.declOut()
	cx.useSpec(sf.Key)
	fi := &foldInfo{step: sf.Key, sort: st, nameS: "foldS_" + sanitize(sf.Key), nameO: "foldO_" + sanitize(sf.Key)}
	cx.foldUsed[sf.Key] = fi
	cx.foldOrd = append(cx.foldOrd, sf.Key)
	cx.useSpec("fold:" + sf.Key)
	return fi
}

// closeSpecUse makes specUsed transitively closed.
func (cx *Cx) closeSpecUse() { cx.specDefs() }

// specDefs emits the definitions of all used spec functions (transitively), folds included.
func (cx *Cx) specDefs() (string, error) {
	type def struct {
		key  string
		sig  string // "(name ((x S)...) R)"
		body string
		deps map[string]bool
		raw  bool
	}
	defs := map[string]*def{}
	var order []string
	var firstErr error
	cx.specTodo = nil
	for k := range cx.specUsed {
		cx.specTodo = append(cx.specTodo, k)
	}
	sortStrings(cx.specTodo)
	for len(cx.specTodo) > 0 {
		key := cx.specTodo[0]
		cx.specTodo = cx.specTodo[1:]
		if defs[key] != nil {
			continue
		}
		if strings.HasPrefix(key, "fold:") {
			fi := cx.foldUsed[key[5:]]
			is := cx.intSort()
			step := specSMTName(fi.step)
			le, minus := "<=", "-"
			if cx.bv {
				le, minus = "bvsle", "bvsub"
			}
			d := &def{key: key, deps: map[string]bool{fi.step: true, key: true}, raw: true}
			// Folds are uninterpreted symbols constrained by ground unfolding facts emitted at every builder write
			// (unfoldFacts) -- recursive definitions made the solvers an order of magnitude slower and are not needed:
			// every fact used about a fold is a consequence of its definition.
			_, _, _, _ = is, step, le, minus
			d.body = fmt.Sprintf("(declare-fun %s (%s Str %s) %s)\n(declare-fun %s (%s Out) %s)\n", fi.nameS, fi.sort, is, fi.sort, fi.nameO, fi.sort, fi.sort)
			defs[key] = d
			order = append(order, key)
			cx.useSpec(fi.step)
			if defs[fi.step] == nil {
				cx.specTodo = append(cx.specTodo, fi.step)
			}
			continue
		}
		if strings.HasPrefix(key, "foldH:") {
			name := key[6:]
			dd := cx.foldHUsed[name]
			d := &def{key: key, deps: map[string]bool{dd[0]: true, dd[1]: true, key: true}, raw: true}
			d.body = fmt.Sprintf("(declare-fun %s (%s Out) %s)\n", name, dd[2], dd[2])
			defs[key] = d
			order = append(order, key)
			for _, k := range []string{dd[0], dd[1]} {
				cx.useSpec(k)
				if defs[k] == nil {
					cx.specTodo = append(cx.specTodo, k)
				}
			}
			continue
		}
		sf := cx.w.SpecDecls[key]
		sig := sf.Obj.Type().(*types.Signature)
		d := &def{key: key, deps: map[string]bool{}}
		var ps []string
		env := &Env{cx: cx, vars: map[string]Val{}, info: sf.Pkg.TypesInfo, pkg: sf.Pkg.Name}
		for _, f := range sf.Decl.Type.Params.List {
			for _, nm := range f.Names {
				t := sf.Pkg.TypesInfo.TypeOf(f.Type)
				pn := "p_" + nm.Name
				ps = append(ps, fmt.Sprintf("(%s %s)", pn, cx.sortOf(t)))
				env.vars[nm.Name] = Val{S: pn, T: t}
			}
		}
		rs := cx.sortOf(sig.Results().At(0).Type())
		d.sig = fmt.Sprintf("(%s (%s) %s)", specSMTName(key), strings.Join(ps, " "), rs)
		if cx.opaqueHere(sf) {
			var pss []string
			for i := 0; i < sig.Params().Len(); i++ {
				pss = append(pss, cx.sortOf(sig.Params().At(i).Type()))
			}
			d.body = ""
			d.sig = fmt.Sprintf("(declare-fun %s (%s) %s)", specSMTName(key), strings.Join(pss, " "), rs)
			defs[key] = d
			order = append(order, key)
			continue
		}
		before := map[string]bool{}
		for k := range cx.specUsed {
			before[k] = true
		}
		// record dependencies: translate with a fresh used-set
		saveUsed := cx.specUsed
		cx.specUsed = map[string]bool{}
		saveTodo := cx.specTodo
		cx.specTodo = nil
		func() {
			defer func() {
				if r := recover(); r != nil {
					if u, ok := r.(unsupported); ok {
						if firstErr == nil {
							firstErr = fmt.Errorf("spec function %s: %v", key, u)
						}
						d.body = cx.zeroOf(sig.Results().At(0).Type())
						return
					}
					panic(r)
				}
			}()
			d.body = env.block(sf.Decl.Body.List).S
		}()
		for k := range cx.specUsed {
			d.deps[k] = true
		}
		newTodo := cx.specTodo
		cx.specUsed = saveUsed
		cx.specTodo = saveTodo
		for _, k := range newTodo {
			cx.useSpec(k)
			if defs[k] == nil {
				cx.specTodo = append(cx.specTodo, k)
			}
		}
		defs[key] = d
		order = append(order, key)
	}
	// SCCs (Tarjan) to emit non-recursive functions as define-fun in dependency order
	index := map[string]int{}
	low := map[string]int{}
	on := map[string]bool{}
	var stack []string
	var sccs [][]string
	idx := 0
	var strong func(v string)
	strong = func(v string) {
		index[v] = idx
		low[v] = idx
		idx++
		stack = append(stack, v)
		on[v] = true
		var ds []string
		for k := range defs[v].deps {
			ds = append(ds, k)
		}
		sortStrings(ds)
		for _, w := range ds {
			if defs[w] == nil {
				continue
			}
			if _, ok := index[w]; !ok {
				strong(w)
				if low[w] < low[v] {
					low[v] = low[w]
				}
			} else if on[w] && index[w] < low[v] {
				low[v] = index[w]
			}
		}
		if low[v] == index[v] {
			var comp []string
			for {
				w := stack[len(stack)-1]
				stack = stack[:len(stack)-1]
				on[w] = false
				comp = append(comp, w)
				if w == v {
					break
				}
			}
			sccs = append(sccs, comp)
		}
	}
	for _, k := range order {
		if _, ok := index[k]; !ok {
			strong(k)
		}
	}
	var b strings.Builder
	for _, comp := range sccs { // Tarjan yields reverse topological order: dependencies first
		if len(comp) == 1 {
			d := defs[comp[0]]
			if d.raw {
				b.WriteString(d.body)
				continue
			}
			if d.body == "" {
				b.WriteString(d.sig + "\n")
				continue
			}
			if !d.deps[comp[0]] {
				// (define-fun name (params) R body)
				b.WriteString("(define-fun " + d.sig[1:len(d.sig)-1] + "\n  " + d.body + ")\n")
				continue
			}
		}
		var sigs, bodies []string
		for _, k := range comp {
			sigs = append(sigs, defs[k].sig)
			bodies = append(bodies, defs[k].body)
		}
		b.WriteString("(define-funs-rec (" + strings.Join(sigs, " ") + ")\n  (" + strings.Join(bodies, "\n   ") + "))\n")
	}
	return b.String(), firstErr
}

func sortStrings(s []string) {
	for i := 1; i < len(s); i++ {
		for j := i; j > 0 && s[j] < s[j-1]; j-- {
			s[j], s[j-1] = s[j-1], s[j]
		}
	}
}

func (cx *Cx) noteInit(fold, init string) {
	if cx.foldInits == nil {
		cx.foldInits = map[string][]string{}
	}
	for _, i := range cx.foldInits[fold] {
		if i == init {
			return
		}
	}
	cx.foldInits[fold] = append(cx.foldInits[fold], init)
}

// unfoldFacts: ground unfolding of every fold in use for one builder write (o_new = o_old + operand).
func (cx *Cx) unfoldFacts(oNew, oOld, kind, operand string) []string {
	var out []string
	for _, k := range cx.foldOrd {
		fi := cx.foldUsed[k]
		for _, init := range cx.foldInits[fi.nameO] {
			if kind == "b" {
				out = append(out, fmt.Sprintf("(assert (= (%s %s %s) (%s (%s %s %s) %s)))", fi.nameO, init, oNew, specSMTName(fi.step), fi.nameO, init, oOld, operand))
			} else {
				out = append(out, fmt.Sprintf("(assert (= (%s %s %s) (%s (%s %s %s) %s (s_len %s))))", fi.nameO, init, oNew, fi.nameS, fi.nameO, init, oOld, operand, operand))
			}
		}
	}
	for _, name := range cx.foldHOrd {
		d := cx.foldHUsed[name]
		for _, init := range cx.foldInits[name] {
			step := specSMTName(d[0])
			if kind != "b" {
				step = specSMTName(d[1])
			}
			out = append(out, fmt.Sprintf("(assert (= (%s %s %s) (%s (%s %s %s) %s)))", name, init, oNew, step, name, init, oOld, operand))
		}
	}
	return out
}

// foldBaseFacts: fold(init, empty history) = init, and the String() link for the known inits.
func (cx *Cx) foldBaseFacts() []string {
	var out []string
	for _, k := range cx.foldOrd {
		fi := cx.foldUsed[k]
		for _, init := range cx.foldInits[fi.nameO] {
			out = append(out, fmt.Sprintf("(assert (= (%s %s o_nil) %s))", fi.nameO, init, init))
		}
	}
	for _, name := range cx.foldHOrd {
		for _, init := range cx.foldInits[name] {
			out = append(out, fmt.Sprintf("(assert (= (%s %s o_nil) %s))", name, init, init))
		}
	}
	return out
}

var layoutCalls = map[string]bool{
	"(*CodeWriter).WriteSpace": true, "(*CodeWriter).WriteNewline": true, "(*CodeWriter).WriteIndent": true,
	"(*CodeWriter).IncreaseIndent": true, "(*CodeWriter).DecreaseIndent": true,
}

// traceSeq(ev...): the ghost call trace since the last loop head (or function entry) consists of exactly the listed
// events, in order. traceSeq ignores layout calls (WriteSpace/WriteNewline/WriteIndent/Increase-/DecreaseIndent);
// fullSeq does not. Event descriptors: evLC(comments) evMap(pos) evNamedMap(line,col,name) evStr(s) evRune(r) evSemi()
// evNode(n) (dynamic n.WriteTo) evChild(p) (static p.WriteTo on a concrete node) evPrec(n) (n.Precedence()) and, for
// fullSeq, evSpace() evNewline() evIndent() evInc() evDec(); evCall("short key") matches any call of that callee.
func (e *Env) traceSeq(x *ast.CallExpr, full bool, writesOnly bool) Val {
	start := 0
	for i, ev := range e.trace {
		if ev.name == "#loop" {
			start = i + 1
		}
	}
	var evs []traceEv
	for _, ev := range e.trace[start:] {
		if !full && layoutCalls[ev.name] {
			continue
		}
		if strings.HasSuffix(ev.name, "Precedence") {
			continue // pure queries are not part of the emitted sequence
		}
		if !full && !strings.HasPrefix(ev.name, "(") && strings.Contains(ev.name, ".") && !strings.HasPrefix(ev.name, "Builder.") {
			continue // standard-library calls are not part of the emitted sequence (fullSeq sees them)
		}
		if strings.HasPrefix(ev.name, "Builder.") != writesOnly {
			continue // writeSeq looks at the raw buffer writes only, the other patterns never do
		}
		evs = append(evs, ev)
	}
	falseV := Val{S: "false", T: types.Typ[types.Bool]}
	var conj []string
	pos := 0
	wantName := map[string]string{
		"evLC": "(*CodeWriter).WriteLeadingComments", "evMap": "(*CodeWriter).AddMapping", "evNamedMap": "(*CodeWriter).AddNamedMapping",
		"evStr": "(*CodeWriter).WriteString", "evRune": "(*CodeWriter).WriteRune", "evSemi": "(*CodeWriter).WriteSemi",
		"evNode": "slotWriteTo", "evByte": "Builder.WriteByte", "evText": "Builder.WriteString",
		"evSpace": "(*CodeWriter).WriteSpace", "evNewline": "(*CodeWriter).WriteNewline", "evIndent": "(*CodeWriter).WriteIndent",
		"evInc": "(*CodeWriter).IncreaseIndent", "evDec": "(*CodeWriter).DecreaseIndent",
	}
	// match one descriptor against one event: ok=false if the kinds differ; otherwise the argument equalities
	match := func(ce *ast.CallExpr, ev traceEv) (bool, []string) {
		id, _ := ce.Fun.(*ast.Ident)
		if id == nil {
			e.fail(ce, "traceSeq arguments must be event descriptors ev...(...)")
		}
		switch id.Name {
		case "evCall":
			return ev.name == e.strArg(ce, 0), nil
		case "evChild":
			if !strings.HasSuffix(ev.name, ").WriteTo") || len(ev.args) < 1 {
				return false, nil
			}
			return true, []string{fmt.Sprintf("(= %s %s)", ev.args[0].S, e.expr(ce.Args[0]).S)}
		case "evNode":
			if ev.name != "slotWriteTo" || len(ev.args) < 1 {
				return false, nil
			}
			return true, []string{fmt.Sprintf("(= %s %s)", ev.args[0].S, e.expr(ce.Args[0]).S)}
		}
		want := wantName[id.Name]
		if want == "" {
			e.fail(ce, "unknown event descriptor "+id.Name)
		}
		if ev.name != want || len(ev.args) != len(ce.Args)+1 {
			return false, nil
		}
		var eqs []string
		for j, arg := range ce.Args {
			eqs = append(eqs, fmt.Sprintf("(= %s %s)", ev.args[j+1].S, e.expr(arg).S))
		}
		return true, eqs
	}
	// exact matching with optional events: alternatives are explored (an optional descriptor is present or absent) and
	// combined into a disjunction; branches whose event kinds do not fit are dropped statically
	var descs []*ast.CallExpr
	for _, a := range x.Args {
		ce, ok := a.(*ast.CallExpr)
		if !ok {
			e.fail(a, "traceSeq arguments must be event descriptors ev...(...)")
		}
		descs = append(descs, ce)
	}
	var rec func(di, pos int) string
	rec = func(di, pos int) string {
		if di == len(descs) {
			if pos == len(evs) {
				return "true"
			}
			return "false"
		}
		ce := descs[di]
		id, _ := ce.Fun.(*ast.Ident)
		if id != nil && id.Name == "evOpt" {
			cond := e.expr(ce.Args[0])
			inner, ok := ce.Args[1].(*ast.CallExpr)
			if !ok {
				e.fail(ce, "evOpt(cond, ev...(...))")
			}
			absent := rec(di+1, pos)
			present := "false"
			if pos < len(evs) {
				if m, eqs := match(inner, evs[pos]); m && !contradictory(eqs) {
					rest := rec(di+1, pos+1)
					if rest != "false" {
						present = "(and " + cond.S + " " + strings.Join(append(eqs, rest), " ") + ")"
					}
				}
			}
			if absent == "false" {
				return present
			}
			ab := "(and (not " + cond.S + ") " + absent + ")"
			if present == "false" {
				return ab
			}
			return "(or " + present + " " + ab + ")"
		}
		if pos >= len(evs) {
			return "false"
		}
		m, eqs := match(ce, evs[pos])
		if !m || contradictory(eqs) {
			return "false"
		}
		rest := rec(di+1, pos+1)
		if rest == "false" {
			return "false"
		}
		return "(and " + strings.Join(append(eqs, rest), " ") + ")"
	}
	_ = falseV
	_ = conj
	_ = pos
	return Val{S: rec(0, 0), T: types.Typ[types.Bool]}
}

func unusedTraceTail(conj []string, cx *Cx) Val {
	_ = cx
	if len(conj) == 0 {
		return Val{S: "true", T: types.Typ[types.Bool]}
	}
	return Val{S: "(and " + strings.Join(conj, " ") + " true)", T: types.Typ[types.Bool]}
}

// contradictory: some equation compares two different integer literals.
func contradictory(eqs []string) bool {
	for _, q := range eqs {
		var a, b int64
		if n, _ := fmt.Sscanf(q, "(= %d %d)", &a, &b); n == 2 && a != b {
			return true
		}
	}
	return false
}
