package main

import (
	"fmt"
	"go/types"
	"os"
	"path/filepath"
	"regexp"
	"sort"
	"strconv"
	"strings"

	"golang.org/x/tools/go/ssa"
)

// Clause is one requires / ensures / invariant / decreases expression of a contract.
type Clause struct {
	Kind    string // requires ensures invariant decreases
	Label   string
	Props   []string // property ids this clause counts for (empty = all props of the function)
	Text    string
	Loop    int
	GenName string
	Fn      *SpecFn // typed AST of the generated clause function (after second load)
	Params  []string
	Line    int
	File    string
	Assumed bool   // hypothesis: assumed on entry of the unit, not checked at call sites
	Def     bool   // definitional (introduction rule of a ghost predicate): assumed at call sites, not checked in the body
	Callee  string // for atcall clauses: short key of the callee
	Ranked  bool   // termination clause: checked only at calls of callees whose rank is not below the unit's rank
	Group   string // clause group this clause was spliced from ("" = the function's own clause)
	BoundedOnly bool // ensures-bounded: checked only by the executable harness over the bounded domain (labelled bounded, never an obligation, never assumed)
}

type LoopSpec struct {
	Before     []*Clause // trace obligations when the loop is entered (events since the previous loop / function entry)
	Each       []*Clause // trace obligations at every back edge (events of one iteration)
	Invariants []*Clause
	Decreases  *Clause
	Unroll     int
}

type Contract struct {
	Key      string
	Pkg      string
	Requires []*Clause
	Ensures  []*Clause
	Modifies []string
	Loops    map[int]*LoopSpec
	Mode     string // "" (int) or "bv"
	Props    []string
	Trusted  bool // contract is assumed, body not verified (stated in evidence)
	NoInline bool
	Inline   bool // no contract semantics at call sites: always inline the body
	File     string
	Line     int
	Lemmas   []string // spec lemma functions to instantiate (names)
	SameAs   string            // this function is verified against (and stands for) the contract of another function, parameters mapped by position
	FuncVars map[string]string // function-typed variables (parameters, free variables): the contract calls through them obey ("passthrough" = plugin interceptor hypothesis)
	Abstract bool              // slot contract on a dummy function of the contracts file: never verified as a unit, obligations arise where function values are stored into the slot
	Dropped  []droppedClause   // clauses set aside because they no longer type-check against the current tree
	PosNames []string          // names the clauses use for the function's parameters, by position (receiver first)
	HasParamList bool
	AtCalls  []*Clause         // obligations at the unit's calls of a named callee
	Slow     int               // escalation-limit factor for heavy but decidable goals (0 = none)
	Rank     int               // termination rank (0 = none): a call of a ranked callee must go to a lower rank or follow a strict decrease of the family's measure
	NoRank   map[string]bool   // function variables whose calls are exempt from the termination obligation (hypothesis, listed in the evidence)
	Groups   []string          // clause groups spliced into this contract (use)
	ModGroup map[string]string // modifies entry -> group it came from
	uses     []string
}

type droppedClause struct {
	Kind  string
	Label string
	Loop  int
	Props []string
	Why   string
}

// dropClauses removes the clauses with the given generated names; false if one of them is a precondition or is not found.
func (c *Contract) dropClauses(gens []string, why string) bool {
	isGen := map[string]bool{}
	for _, g := range gens {
		isGen[g] = true
	}
	found := 0
	for _, cl := range c.Requires {
		if isGen[cl.GenName] && !cl.Assumed {
			return false
		}
	}
	filter := func(cls []*Clause) []*Clause {
		var out []*Clause
		for _, cl := range cls {
			if isGen[cl.GenName] {
				found++
				c.Dropped = append(c.Dropped, droppedClause{Kind: cl.Kind, Label: cl.Label, Loop: cl.Loop, Props: cl.Props, Why: why})
				continue
			}
			out = append(out, cl)
		}
		return out
	}
	c.Requires = filter(c.Requires)
	c.Ensures = filter(c.Ensures)
	c.AtCalls = filter(c.AtCalls)
	for _, ls := range c.Loops {
		ls.Invariants = filter(ls.Invariants)
		ls.Before = filter(ls.Before)
		ls.Each = filter(ls.Each)
		if ls.Decreases != nil && isGen[ls.Decreases.GenName] {
			found++
			c.Dropped = append(c.Dropped, droppedClause{Kind: "decreases", Loop: ls.Decreases.Loop, Why: why})
			ls.Decreases = nil
		}
	}
	return found > 0
}

// slotInfo describes a function-typed field (or map-of-functions field) whose values obey a contract.
type slotInfo struct {
	Key   string // contract key
	Owner bool   // the stored functions take no explicit subject: they are closures bound to the object that owns the field, which is passed as first argument of the slot contract
}

var fieldSlots = map[string]slotInfo{}

// ownedFields: "pkg.Struct.field" of slice-typed fields declared exclusively owned.
var ownedFields = map[string]bool{}

// ifaceSlots: "pkg.Method" of an interface method -> contract key every implementation obeys.
var ifaceSlots = map[string]string{}

// transGroups: clause groups declared transitive (two-state relations closed under composition and holding for the
// empty execution); proved by the units lemma_<group>_refl / lemma_<group>_trans of the contracts file.
var transGroups = map[string]bool{}

// FieldContracts: "pkg.Struct.field" (or "pkg.Struct.field[]" for map-of-functions fields) -> contract key
var fieldContracts = map[string]string{}

var reStrLit = regexp.MustCompile(`"(?:[^"\\\n]|\\.)*"`)
var reFuncHdr = regexp.MustCompile(`^func\s+(?:\(\s*(\w*)\s*(\*?)\s*(\w+)\s*\)\s*)?([\w$]+)\s*(?:\(([\w\s,]*)\))?\s*$`)
var reLabel = regexp.MustCompile(`^\[([^\]]+)\]\s*(.*)$`)

// parseContractText parses the //@ lines of one contracts file.
func parseContractText(pkg, file string, src []byte) ([]*Contract, error) {
	var out []*Contract
	var cur *Contract
	lines := strings.Split(string(src), "\n")
	for i := 0; i < len(lines); i++ {
		ln := strings.TrimSpace(lines[i])
		if !strings.HasPrefix(ln, "//@") {
			continue
		}
		body := strings.TrimSpace(ln[3:])
		lineNo := i + 1
		// continuation lines: "//@+ more text"
		for i+1 < len(lines) && strings.HasPrefix(strings.TrimSpace(lines[i+1]), "//@+") {
			i++
			body += " " + strings.TrimSpace(strings.TrimSpace(lines[i])[4:])
		}
		if body == "" {
			continue
		}
		if strings.HasPrefix(body, "func ") || strings.HasPrefix(body, "func(") {
			m := reFuncHdr.FindStringSubmatch(body)
			if m == nil {
				return nil, fmt.Errorf("%s:%d: cannot parse function header %q", file, lineNo, body)
			}
			key := pkg + "."
			if m[3] != "" {
				key += "(" + m[2] + m[3] + ")."
			}
			key += m[4]
			cur = &Contract{Key: key, Pkg: pkg, Loops: map[int]*LoopSpec{}, File: file, Line: lineNo}
			// positional parameter names: the clauses use these names whatever the code calls its parameters
			if m[3] != "" && !strings.Contains(m[4], "$") {
				cur.PosNames = append(cur.PosNames, m[1])
			}
			if strings.Contains(body, "(") && strings.HasSuffix(strings.TrimSpace(body), ")") && m[5] != "" || strings.HasSuffix(strings.TrimSpace(body), "()") {
				for _, n := range strings.Split(m[5], ",") {
					if n = strings.TrimSpace(n); n != "" {
						cur.PosNames = append(cur.PosNames, n)
					}
				}
				cur.HasParamList = true
			}
			out = append(out, cur)
			continue
		}
		if w0, r0 := splitWord(body); w0 == "fieldcontract" {
			f := strings.Fields(r0)
			if len(f) != 2 && !(len(f) == 3 && f[2] == "owner") {
				return nil, fmt.Errorf("%s:%d: fieldcontract <Struct.field> <contract key> [owner]", file, lineNo)
			}
			fieldContracts[pkg+"."+f[0]] = f[1]
			fieldSlots[pkg+"."+f[0]] = slotInfo{Key: f[1], Owner: len(f) == 3}
			continue
		}
		if w0, r0 := splitWord(body); w0 == "owned" {
			// owned Struct.field: the slice held by this field is never copied out of it (checked at every load), so
			// reslicing it and appending in place cannot be observed through another slice value
			for _, f := range strings.Fields(r0) {
				ownedFields[pkg+"."+f] = true
			}
			continue
		}
		if w0, r0 := splitWord(body); w0 == "ifacecontract" {
			f := strings.Fields(r0)
			if len(f) != 2 {
				return nil, fmt.Errorf("%s:%d: ifacecontract <Method> <contract key>", file, lineNo)
			}
			ifaceSlots[pkg+"."+f[0]] = f[1]
			continue
		}
		if w0, r0 := splitWord(body); w0 == "group" {
			name := strings.Fields(r0)[0]
			if strings.Contains(r0, " transitive") {
				transGroups[pkg+"."+name] = true
			}
			cur = &Contract{Key: "group:" + pkg + "." + name, Pkg: pkg, Loops: map[int]*LoopSpec{}, File: file, Line: lineNo}
			out = append(out, cur)
			continue
		}
		if w0, r0 := splitWord(body); w0 == "globalinv" {
			key := pkg + ".#global"
			var g *Contract
			for _, c := range out {
				if c.Key == key {
					g = c
				}
			}
			if g == nil {
				g = &Contract{Key: key, Pkg: pkg, Loops: map[int]*LoopSpec{}, File: file, Line: lineNo}
				out = append(out, g)
			}
			c := &Clause{Kind: "ensures", Line: lineNo, File: file}
			c.Label, c.Props, c.Text = parseLabel(r0)
			g.Ensures = append(g.Ensures, c)
			continue
		}
		if cur == nil {
			return nil, fmt.Errorf("%s:%d: clause outside a function block: %q", file, lineNo, body)
		}
		word, rest := splitWord(body)
		switch word {
		case "assumes":
			// hypothesis about the input that is assumed on entry and not demanded at call sites (listed in the evidence)
			c := &Clause{Kind: "requires", Line: lineNo, File: file, Assumed: true}
			c.Label, c.Props, c.Text = parseLabel(rest)
			cur.Requires = append(cur.Requires, c)
		case "requires", "ensures", "ensures-def", "ensures-bounded":
			c := &Clause{Kind: word, Line: lineNo, File: file}
			c.Label, c.Props, c.Text = parseLabel(rest)
			if word == "ensures-def" {
				// definitional postcondition of a ghost predicate: assumed by callers, not an obligation of the body
				c.Kind = "ensures"
				c.Def = true
			}
			if word == "ensures-bounded" {
				c.Kind = "ensures"
				c.BoundedOnly = true
			}
			if word == "requires" {
				cur.Requires = append(cur.Requires, c)
			} else {
				cur.Ensures = append(cur.Ensures, c)
			}
		case "termination":
			// termination <measure>: at every call of a ranked callee whose rank is not below the unit's rank, the measure must
			// be strictly below its value on entry (it never exceeds it: that is a postcondition of the family)
			c := &Clause{Kind: "atcall", Callee: "*", Line: lineNo, File: file, Ranked: true}
			var expr string
			c.Label, c.Props, expr = parseLabel(rest)
			if c.Label == "" {
				c.Label = "term"
			}
			c.Text = "(" + expr + ") < old(" + expr + ")"
			cur.AtCalls = append(cur.AtCalls, c)
		case "slow":
			// slow <factor>: the goals of this unit are decidable but heavy (case splits over written-out specification
			// functions); like bit-vector units they get a longer path limit and <factor> times the escalation limit, so that
			// machine load cannot turn them into alarms
			n, err := strconv.Atoi(strings.TrimSpace(rest))
			if err != nil || n <= 1 || n > 10 {
				return nil, fmt.Errorf("%s:%d: slow <factor 2..10>", file, lineNo)
			}
			cur.Slow = n
		case "rank":
			n, err := strconv.Atoi(strings.TrimSpace(rest))
			if err != nil || n <= 0 {
				return nil, fmt.Errorf("%s:%d: rank <positive integer>", file, lineNo)
			}
			cur.Rank = n
		case "norank":
			if cur.NoRank == nil {
				cur.NoRank = map[string]bool{}
			}
			for _, f := range strings.Fields(rest) {
				cur.NoRank[f] = true
			}
		case "atcall":
			callee, r2 := splitWord(rest)
			c := &Clause{Kind: "atcall", Callee: callee, Line: lineNo, File: file}
			c.Label, c.Props, c.Text = parseLabel(r2)
			cur.AtCalls = append(cur.AtCalls, c)
		case "modifies":
			for _, t := range strings.Split(rest, ",") {
				t = strings.TrimSpace(t)
				if t != "" {
					cur.Modifies = append(cur.Modifies, t)
				}
			}
		case "loop":
			ns, rest2 := splitWord(rest)
			n, err := strconv.Atoi(ns)
			if err != nil {
				return nil, fmt.Errorf("%s:%d: loop ordinal expected: %q", file, lineNo, body)
			}
			ls := cur.Loops[n]
			if ls == nil {
				ls = &LoopSpec{}
				cur.Loops[n] = ls
			}
			kind, rest3 := splitWord(rest2)
			switch kind {
			case "invariant":
				c := &Clause{Kind: "invariant", Loop: n, Line: lineNo, File: file}
				c.Label, c.Props, c.Text = parseLabel(rest3)
				ls.Invariants = append(ls.Invariants, c)
			case "before", "each":
				c := &Clause{Kind: kind, Loop: n, Line: lineNo, File: file}
				c.Label, c.Props, c.Text = parseLabel(rest3)
				if kind == "before" {
					ls.Before = append(ls.Before, c)
				} else {
					ls.Each = append(ls.Each, c)
				}
			case "decreases":
				ls.Decreases = &Clause{Kind: "decreases", Loop: n, Text: rest3, Line: lineNo, File: file}
			case "unroll":
				k, err := strconv.Atoi(strings.TrimSpace(rest3))
				if err != nil {
					return nil, fmt.Errorf("%s:%d: unroll count expected", file, lineNo)
				}
				ls.Unroll = k
			default:
				return nil, fmt.Errorf("%s:%d: unknown loop clause %q", file, lineNo, kind)
			}
		case "mode":
			cur.Mode = strings.TrimSpace(rest)
		case "props":
			cur.Props = strings.Fields(rest)
		case "trusted":
			cur.Trusted = true
		case "abstract":
			cur.Abstract = true
		case "use":
			cur.uses = append(cur.uses, strings.Fields(rest)...)
		case "inline":
			cur.Inline = true
		case "lemma":
			cur.Lemmas = append(cur.Lemmas, strings.Fields(rest)...)
		case "sameas":
			cur.SameAs = strings.TrimSpace(rest)
		case "funcvar":
			f := strings.Fields(rest)
			if len(f) != 2 {
				return nil, fmt.Errorf("%s:%d: funcvar <name> <contract key|passthrough|callback>", file, lineNo)
			}
			if cur.FuncVars == nil {
				cur.FuncVars = map[string]string{}
			}
			cur.FuncVars[f[0]] = f[1]
		default:
			return nil, fmt.Errorf("%s:%d: unknown clause keyword %q", file, lineNo, word)
		}
	}
	return resolveGroups(pkg, out)
}

// resolveGroups splices the clauses of the named groups into the contracts that use them and drops the group blocks.
func resolveGroups(pkg string, cs []*Contract) ([]*Contract, error) {
	groups := map[string]*Contract{}
	for _, c := range cs {
		if strings.HasPrefix(c.Key, "group:") {
			groups[strings.TrimPrefix(c.Key, "group:"+pkg+".")] = c
		}
	}
	var expand func(c *Contract, seen map[string]bool) error
	expand = func(c *Contract, seen map[string]bool) error {
		uses := c.uses
		c.uses = nil
		for _, u := range uses {
			g := groups[u]
			if g == nil {
				return fmt.Errorf("%s:%d: unknown clause group %s", c.File, c.Line, u)
			}
			if seen[u] {
				return fmt.Errorf("%s:%d: cyclic clause group %s", c.File, c.Line, u)
			}
			seen[u] = true
			if err := expand(g, seen); err != nil {
				return err
			}
			delete(seen, u)
			cp := func(cl *Clause) *Clause {
				n := *cl
				if n.Group == "" {
					n.Group = u
				}
				return &n
			}
			var rq, en []*Clause
			for _, cl := range g.Requires {
				rq = append(rq, cp(cl))
			}
			for _, cl := range g.Ensures {
				en = append(en, cp(cl))
			}
			c.Requires = append(rq, c.Requires...)
			c.Ensures = append(en, c.Ensures...)
			var ac []*Clause
			for _, cl := range g.AtCalls {
				ac = append(ac, cp(cl))
			}
			c.AtCalls = append(ac, c.AtCalls...)
			if c.ModGroup == nil {
				c.ModGroup = map[string]string{}
			}
			for _, m := range g.Modifies {
				dup := false
				for _, m2 := range c.Modifies {
					if m2 == m {
						dup = true
					}
				}
				if !dup {
					c.Modifies = append(c.Modifies, m)
					og := u
					if g.ModGroup != nil && g.ModGroup[m] != "" {
						og = g.ModGroup[m]
					}
					c.ModGroup[m] = og
				}
			}
			for k, v := range g.FuncVars {
				if c.FuncVars == nil {
					c.FuncVars = map[string]string{}
				}
				if _, ok := c.FuncVars[k]; !ok {
					c.FuncVars[k] = v
				}
			}
			c.Groups = append(c.Groups, u)
			for _, gg := range g.Groups {
				c.Groups = append(c.Groups, gg)
			}
			if len(c.Props) == 0 {
				c.Props = g.Props
			}
		}
		return nil
	}
	var out []*Contract
	for _, c := range cs {
		if err := expand(c, map[string]bool{}); err != nil {
			return nil, err
		}
	}
	for _, c := range cs {
		if !strings.HasPrefix(c.Key, "group:") {
			out = append(out, c)
		}
	}
	return out, nil
}

func splitWord(s string) (string, string) {
	s = strings.TrimSpace(s)
	i := strings.IndexAny(s, " \t")
	if i < 0 {
		return s, ""
	}
	return s[:i], strings.TrimSpace(s[i+1:])
}

// parseLabel: "[name@C10,C08] expr" -> label, props, expr
func parseLabel(s string) (string, []string, string) {
	m := reLabel.FindStringSubmatch(s)
	if m == nil {
		return "", nil, s
	}
	lab := m[1]
	var props []string
	if i := strings.Index(lab, "@"); i >= 0 {
		props = strings.Split(lab[i+1:], ",")
		lab = lab[:i]
	}
	return lab, props, m[2]
}

// readContracts reads contracts from /repo/<pkg>/contracts_verif.go; a missing file falls back to the mirror in /verif/contracts.
func readContracts(repo, mirror string) (map[string]*Contract, map[string][]byte, error) {
	res := map[string]*Contract{}
	overlay := map[string][]byte{}
	for _, pkg := range verifPkgs {
		p := filepath.Join(repo, pkg, contractFile)
		src, err := os.ReadFile(p)
		if err != nil {
			m := filepath.Join(mirror, pkg, contractFile)
			src, err = os.ReadFile(m)
			if err != nil {
				continue
			}
			overlay[p] = src
		}
		cs, err := parseContractText(pkg, p, src)
		if err != nil {
			return nil, nil, err
		}
		for _, c := range cs {
			if res[c.Key] != nil {
				return nil, nil, fmt.Errorf("%s:%d: duplicate contract for %s", c.File, c.Line, c.Key)
			}
			res[c.Key] = c
		}
	}
	return res, overlay, nil
}

func sanitize(s string) string {
	var b strings.Builder
	for _, r := range s {
		if r >= 'a' && r <= 'z' || r >= 'A' && r <= 'Z' || r >= '0' && r <= '9' {
			b.WriteRune(r)
		} else {
			b.WriteByte('_')
		}
	}
	return b.String()
}

// fnVars describes the names visible to clauses of a function.
type fnVars struct {
	Params  []*types.Var // incl. receiver, in ssa order; for closures free variables first (by element type)
	PNames  []string
	PTypes  []types.Type
	RNames  []string
	RTypes  []types.Type
	LNames  []string
	LTypes  []types.Type
	LAllocs []*ssa.Alloc
}

func isIdent(s string) bool {
	if s == "" || s == "_" {
		return false
	}
	for i, r := range s {
		if !(r == '_' || r >= 'a' && r <= 'z' || r >= 'A' && r <= 'Z' || (i > 0 && r >= '0' && r <= '9')) {
			return false
		}
	}
	return true
}

// paramNames: the names clauses use for f's parameters (positional names from the contract header, else the code's).
func paramNames(f *ssa.Function, con *Contract) []string {
	out := make([]string, len(f.Params))
	for i, p := range f.Params {
		out[i] = p.Name()
		if con != nil && i < len(con.PosNames) && isIdent(con.PosNames[i]) && (i == 0 && f.Signature.Recv() != nil || con.HasParamList) {
			out[i] = con.PosNames[i]
		}
	}
	return out
}

func collectVars(f *ssa.Function) *fnVars { return collectVarsCon(f, nil) }

func collectVarsCon(f *ssa.Function, con *Contract) *fnVars {
	v := &fnVars{}
	seen := map[string]bool{}
	pn := paramNames(f, con)
	for _, fv := range f.FreeVars {
		if !isIdent(fv.Name()) {
			continue
		}
		v.PNames = append(v.PNames, fv.Name())
		v.PTypes = append(v.PTypes, fv.Type().(*types.Pointer).Elem())
		seen[fv.Name()] = true
	}
	for i, p := range f.Params {
		n := pn[i]
		if !isIdent(n) || seen[n] {
			continue
		}
		v.PNames = append(v.PNames, n)
		v.PTypes = append(v.PTypes, p.Type())
		seen[n] = true
	}
	res := f.Signature.Results()
	for i := 0; i < res.Len(); i++ {
		n := "result"
		if res.Len() > 1 {
			n = fmt.Sprintf("result%d", i)
		}
		v.RNames = append(v.RNames, n)
		v.RTypes = append(v.RTypes, res.At(i).Type())
		seen[n] = true
	}
	lseen := map[string]bool{}
	for _, pn := range v.PNames {
		lseen[pn] = true
	}
	for _, b := range f.Blocks {
		for _, ins := range b.Instrs {
			a, ok := ins.(*ssa.Alloc)
			if !ok {
				continue
			}
			n := a.Comment
			if !isIdent(n) || (seen[n] && !(n == "result" && !lseen[n])) || n == "complit" || n == "varargs" || n == "slicelit" {
				continue
			}
			seen[n] = true
			lseen[n] = true
			v.LNames = append(v.LNames, n)
			v.LTypes = append(v.LTypes, a.Type().(*types.Pointer).Elem())
			v.LAllocs = append(v.LAllocs, a)
		}
	}
	return v
}

const genHelpers = ``

// genClauseFiles produces, per package, the generated file with one Go function per clause.
func genClauseFiles(w *World, contracts map[string]*Contract) (map[string][]byte, []string, error) {
	var missing []string
	byPkg := map[string][]*Contract{}
	for _, k := range sortedKeys(contracts) {
		c := contracts[k]
		byPkg[c.Pkg] = append(byPkg[c.Pkg], c)
	}
	out := map[string][]byte{}
	for pkg, cs := range byPkg {
		imports := map[string]string{}
		qual := func(p *types.Package) string {
			if p.Name() == pkg {
				return ""
			}
			imports[p.Path()] = p.Name()
			return p.Name()
		}
		var body strings.Builder
		for _, c := range cs {
			if strings.HasSuffix(c.Key, ".#global") {
				for i, cl := range c.Ensures {
					cl.GenName = fmt.Sprintf("xvcc_%s_globalinv_%d", pkg, i)
					fmt.Fprintf(&body, "// @key %s\n// global invariant [%s] (%s:%d)\nfunc %s() bool {\n\treturn %s\n}\n\n", c.Key, cl.Label, filepath.Base(cl.File), cl.Line, cl.GenName, cl.Text)
				}
				continue
			}
			f := w.Funcs[c.Key]
			if f == nil {
				missing = append(missing, c.Key)
				continue
			}
			vars := collectVarsCon(f, c)
			emit := func(cl *Clause, idx int, withResult, withLocals bool, retType string) {
				cl.GenName = fmt.Sprintf("xvcc_%s_%s_%d", sanitize(c.Key), cl.Kind, idx)
				var ps []string
				cl.Params = nil
				if cl.Kind == "atcall" && cl.Callee != "*" {
					cf := w.Funcs[c.Pkg+"."+cl.Callee]
					if cf == nil {
						// callee of another package: "pkg:short"
						if i := strings.Index(cl.Callee, ":"); i > 0 {
							cf = w.Funcs[cl.Callee[:i]+"."+cl.Callee[i+1:]]
						}
					}
					if cf != nil {
						cpn := paramNames(cf, contracts[fnKey(w.pkgOfFn(cf), cf)])
						for ci, cp := range cf.Params {
							if isIdent(cpn[ci]) {
								ps = append(ps, "arg_"+cpn[ci]+" "+types.TypeString(cp.Type(), qual))
								cl.Params = append(cl.Params, "arg_"+cpn[ci])
							}
						}
					}
				}
				for i, n := range vars.PNames {
					ps = append(ps, n+" "+types.TypeString(vars.PTypes[i], qual))
					cl.Params = append(cl.Params, n)
				}
				if withResult {
					for i, n := range vars.RNames {
						ps = append(ps, n+" "+types.TypeString(vars.RTypes[i], qual))
						cl.Params = append(cl.Params, n)
					}
				}
				if withLocals {
					for i, n := range vars.LNames {
						ps = append(ps, n+" "+types.TypeString(vars.LTypes[i], qual))
						cl.Params = append(cl.Params, n)
					}
				}
				fmt.Fprintf(&body, "// @key %s\n// %s %s [%s] (%s:%d)\nfunc %s(%s) %s {\n\treturn %s\n}\n\n", c.Key, c.Key, cl.Kind, cl.Label, filepath.Base(cl.File), cl.Line, cl.GenName, strings.Join(ps, ", "), retType, cl.Text)
			}
			n := 0
			for _, cl := range c.Requires {
				emit(cl, n, false, false, "bool")
				n++
			}
			for _, cl := range c.Ensures {
				emit(cl, n, true, false, "bool")
				n++
			}
			for _, cl := range c.AtCalls {
				emit(cl, n, false, true, "bool")
				n++
			}
			var loopIds []int
			for id := range c.Loops {
				loopIds = append(loopIds, id)
			}
			sort.Ints(loopIds)
			for _, id := range loopIds {
				ls := c.Loops[id]
				for _, cl := range ls.Invariants {
					emit(cl, n, false, true, "bool")
					n++
				}
				for _, cl := range append(append([]*Clause{}, ls.Before...), ls.Each...) {
					emit(cl, n, false, true, "bool")
					n++
				}
				if ls.Decreases != nil {
					emit(ls.Decreases, n, false, true, "int")
					n++
				}
			}
		}
		// packages imported by the contracts file and mentioned in clause texts
		if cp := w.Pkgs[pkg]; cp != nil {
			for _, f := range cp.Syntax {
				if filepath.Base(cp.Fset.Position(f.Pos()).Filename) != contractFile {
					continue
				}
				for _, im := range f.Imports {
					path := strings.Trim(im.Path.Value, "\"")
					name := shortPkg(path)
					if im.Name != nil {
						name = im.Name.Name
					}
					if regexp.MustCompile(`\b` + regexp.QuoteMeta(name) + `\.`).MatchString(reStrLit.ReplaceAllString(body.String(), `""`)) {
						imports[path] = name
					}
				}
			}
		}
		var hdr strings.Builder
		hdr.WriteString("//go:build verif\n\n// Code generated by xvc from the //@ contract comments. DO NOT EDIT.\n\npackage " + pkg + "\n\n")
		var ips []string
		for p := range imports {
			ips = append(ips, p)
		}
		sort.Strings(ips)
		if len(ips) > 0 {
			hdr.WriteString("import (\n")
			for _, p := range ips {
				fmt.Fprintf(&hdr, "\t%q\n", p)
			}
			hdr.WriteString(")\n\n")
		}
		out[filepath.Join(w.RepoDir, pkg, genFile)] = []byte(hdr.String() + body.String())
	}
	return out, missing, nil
}

// attachClauses links clauses to their typed generated functions after the second load.
func attachClauses(w *World, contracts map[string]*Contract) error {
	for _, c := range contracts {
		all := append([]*Clause{}, c.Requires...)
		all = append(all, c.Ensures...)
		all = append(all, c.AtCalls...)
		for _, ls := range c.Loops {
			all = append(all, ls.Invariants...)
			all = append(all, ls.Before...)
			all = append(all, ls.Each...)
			if ls.Decreases != nil {
				all = append(all, ls.Decreases)
			}
		}
		for _, cl := range all {
			sf := w.SpecDecls[c.Pkg+"."+cl.GenName]
			if sf == nil {
				return fmt.Errorf("internal: generated clause function %s not found", cl.GenName)
			}
			cl.Fn = sf
		}
	}
	w.Contracts = contracts
	return nil
}
