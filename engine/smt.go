package main

import (
	"fmt"
	"go/token"
	"go/types"
	"sort"
	"strings"
)

// Val is a symbolic value: an SMT term with its Go type, or an address, or a tuple.
type Val struct {
	S     string
	T     types.Type
	A     *Addr
	Tuple []Val
}

// Addr is a symbolic lvalue.
type Addr struct {
	Kind  int // aLocal, aHeapField, aCell, aGlobal, aMapElem
	Local int // index of the local cell (frame-local id) for aLocal
	Cell  string
	Ptr   string     // pointer term for aHeapField / aCell
	Key   string     // heap key for aHeapField / aCell
	Base  types.Type // type of the value stored at the root location
	Path  []pathStep
	Elem  types.Type // type of the addressed location
}

type pathStep struct {
	Field int    // struct field index, or -1 for index step
	Index string // SMT index term for index step
	T     types.Type
}

const (
	aLocal = iota
	aHeapField
	aCell
	aGlobal
	aGlobalRO
)

// Cx collects declarations for one verification unit (one function, one mode).
type Cx struct {
	w        *World
	bv       bool
	sortDone map[string]bool
	sortDecl []string
	lits     map[string]string
	litOrder []string
	heapSort map[string]string // heap key -> element sort
	heapKeys []string
	specUsed map[string]bool
	specTodo []string
	tags     map[string]int // dynamic type tag per concrete type string
	tagOrder []string
	uf       map[string]string // uninterpreted function declarations by name
	ufOrder  []string
	foldUsed map[string]*foldInfo
	foldOrd  []string
	foldHUsed map[string][3]string
	foldHOrd  []string
	foldInits map[string][]string
	nfresh   int
	axioms   []string
	lemmasUsed []string
	inInit   bool
}

type foldInfo struct {
	step  string // spec key of the step function
	sort  string // state sort
	nameS string // fold over Str
	nameO string // fold over Out
}

func newCx(w *World, bv bool) *Cx {
	return &Cx{w: w, bv: bv, sortDone: map[string]bool{}, lits: map[string]string{}, heapSort: map[string]string{}, specUsed: map[string]bool{}, tags: map[string]int{}, uf: map[string]string{}, foldUsed: map[string]*foldInfo{}}
}

func (cx *Cx) intSort() string {
	if cx.bv {
		return "(_ BitVec 64)"
	}
	return "Int"
}

func (cx *Cx) num(n int64) string {
	if cx.bv {
		if n < 0 {
			return fmt.Sprintf("(bvneg (_ bv%d 64))", -n)
		}
		return fmt.Sprintf("(_ bv%d 64)", n)
	}
	if n < 0 {
		return fmt.Sprintf("(- %d)", -n)
	}
	return fmt.Sprintf("%d", n)
}

func sortName(s string) string {
	r := strings.NewReplacer("(", "", ")", "", " ", "_", "_BitVec_64", "BV")
	return r.Replace(s)
}

func isBuilder(t types.Type) bool {
	if nt, ok := t.(*types.Named); ok {
		return nt.Obj().Name() == "Builder" && nt.Obj().Pkg() != nil && nt.Obj().Pkg().Path() == "strings"
	}
	return false
}

func isIntType(t types.Type) bool {
	b, ok := t.Underlying().(*types.Basic)
	return ok && b.Info()&types.IsInteger != 0
}

func isUnsigned(t types.Type) bool {
	b, ok := t.Underlying().(*types.Basic)
	return ok && b.Info()&types.IsUnsigned != 0
}

func isByte(t types.Type) bool {
	b, ok := t.Underlying().(*types.Basic)
	return ok && (b.Kind() == types.Uint8)
}

func isString(t types.Type) bool {
	b, ok := t.Underlying().(*types.Basic)
	return ok && b.Info()&types.IsString != 0
}

func isBool(t types.Type) bool {
	b, ok := t.Underlying().(*types.Basic)
	return ok && b.Info()&types.IsBoolean != 0
}

func structName(t types.Type) string {
	if nt, ok := t.(*types.Named); ok {
		p := ""
		if nt.Obj().Pkg() != nil {
			p = nt.Obj().Pkg().Name() + "_"
		}
		n := nt.Obj().Name()
		if ta := nt.TypeArgs(); ta != nil && ta.Len() > 0 {
			for i := 0; i < ta.Len(); i++ {
				n += "_" + sanitize(types.TypeString(ta.At(i), func(p *types.Package) string { return p.Name() }))
			}
		}
		return p + n
	}
	return sanitize(t.String())
}

// sortOf maps a Go type to an SMT sort, declaring datatypes on demand.
func (cx *Cx) sortOf(t types.Type) string {
	if isBuilder(t) {
		cx.declOut()
		return "Out"
	}
	switch u := t.Underlying().(type) {
	case *types.Basic:
		switch {
		case u.Info()&types.IsBoolean != 0:
			return "Bool"
		case u.Info()&types.IsString != 0:
			return "Str"
		case u.Info()&types.IsInteger != 0:
			return cx.intSort()
		case u.Kind() == types.UnsafePointer || u.Kind() == types.UntypedNil:
			return cx.intSort()
		case u.Info()&types.IsFloat != 0:
			return "Real"
		}
	case *types.Pointer, *types.Map, *types.Chan:
		return cx.intSort()
	case *types.Struct:
		name := "S_" + structName(t)
		if !cx.sortDone[name] {
			cx.sortDone[name] = true
			var fs []string
			for i := 0; i < u.NumFields(); i++ {
				fs = append(fs, fmt.Sprintf("(%s_%s %s)", name, u.Field(i).Name(), cx.sortOf(u.Field(i).Type())))
			}
			if len(fs) == 0 {
				fs = append(fs, fmt.Sprintf("(%s_dummy Bool)", name))
			}
			cx.sortDecl = append(cx.sortDecl, fmt.Sprintf("(declare-datatypes ((%s 0)) (((mk_%s %s))))", name, name, strings.Join(fs, " ")))
		}
		return name
	case *types.Slice:
		es := cx.sortOf(u.Elem())
		name := "Sl_" + sortName(es)
		if !cx.sortDone[name] {
			cx.sortDone[name] = true
			cx.sortDecl = append(cx.sortDecl, fmt.Sprintf("(declare-datatypes ((%s 0)) (((mk_%s (arr_%s (Array %s %s)) (len_%s %s)))))", name, name, name, cx.intSort(), es, name, cx.intSort()))
		}
		return name
	case *types.Array:
		return fmt.Sprintf("(Array %s %s)", cx.intSort(), cx.sortOf(u.Elem()))
	case *types.Interface:
		if !cx.sortDone["Iface"] {
			cx.sortDone["Iface"] = true
			cx.sortDecl = append(cx.sortDecl, fmt.Sprintf("(declare-datatypes ((Iface 0)) (((mk_Iface (if_tag %s) (if_val %s)))))", cx.intSort(), cx.intSort()))
		}
		return "Iface"
	case *types.Signature:
		if !cx.sortDone["Fn"] {
			cx.sortDone["Fn"] = true
			cx.sortDecl = append(cx.sortDecl, "(declare-sort Fn 0)", "(declare-const fn_nil Fn)")
		}
		return "Fn"
	case *types.Tuple:
		return "TUPLE"
	}
	panic(unsupported("sort of type " + t.String()))
}

func (cx *Cx) declOut() {
	if cx.sortDone["Out"] {
		return
	}
	cx.sortDone["Out"] = true
	is := cx.intSort()
	cx.sortDecl = append(cx.sortDecl, fmt.Sprintf("(declare-datatypes ((Out 0)) (((o_nil) (o_b (o_b_p Out) (o_b_c %s)) (o_s (o_s_p Out) (o_s_s Str)))))", is))
	// length of the written text
	cx.sortDecl = append(cx.sortDecl, fmt.Sprintf("(define-fun-rec o_len ((o Out)) %s (ite ((_ is o_nil) o) %s (ite ((_ is o_b) o) (%s (o_len (o_b_p o)) %s) (%s (o_len (o_s_p o)) (s_len (o_s_s o))))))", is, cx.num(0), cx.op("+"), cx.num(1), cx.op("+")))
}

func (cx *Cx) op(o string) string {
	if !cx.bv {
		return o
	}
	switch o {
	case "+":
		return "bvadd"
	case "-":
		return "bvsub"
	case "*":
		return "bvmul"
	}
	return o
}

type unsupported string

func (u unsupported) Error() string { return "outside subset: " + string(u) }

// zeroOf returns the zero value of a type.
func (cx *Cx) zeroOf(t types.Type) string {
	if isBuilder(t) {
		cx.declOut()
		return "o_nil"
	}
	switch u := t.Underlying().(type) {
	case *types.Basic:
		switch {
		case u.Info()&types.IsBoolean != 0:
			return "false"
		case u.Info()&types.IsString != 0:
			return cx.strLit("")
		case u.Info()&types.IsFloat != 0:
			return "0.0"
		default:
			return cx.num(0)
		}
	case *types.Pointer, *types.Map, *types.Chan:
		return cx.num(0)
	case *types.Struct:
		name := cx.sortOf(t)
		var fs []string
		for i := 0; i < u.NumFields(); i++ {
			fs = append(fs, cx.zeroOf(u.Field(i).Type()))
		}
		if len(fs) == 0 {
			fs = append(fs, "false")
		}
		return fmt.Sprintf("(mk_%s %s)", name, strings.Join(fs, " "))
	case *types.Slice:
		name := cx.sortOf(t)
		return fmt.Sprintf("(mk_%s ((as const (Array %s %s)) %s) %s)", name, cx.intSort(), cx.sortOf(u.Elem()), cx.zeroOf(u.Elem()), cx.num(0))
	case *types.Array:
		return fmt.Sprintf("((as const %s) %s)", cx.sortOf(t), cx.zeroOf(u.Elem()))
	case *types.Interface:
		cx.sortOf(t)
		return fmt.Sprintf("(mk_Iface %s %s)", cx.num(0), cx.num(0))
	case *types.Signature:
		cx.sortOf(t)
		return "fn_nil"
	}
	panic(unsupported("zero of type " + t.String()))
}

// strLit returns the constant for a string literal (with its length and bytes as facts).
func (cx *Cx) strLit(s string) string {
	if n, ok := cx.lits[s]; ok {
		return n
	}
	n := fmt.Sprintf("lit_%d", len(cx.lits))
	cx.lits[s] = n
	cx.litOrder = append(cx.litOrder, s)
	return n
}

func (cx *Cx) litDecls() []string {
	var out []string
	for _, s := range cx.litOrder {
		n := cx.lits[s]
		out = append(out, fmt.Sprintf("(declare-const %s Str)", n))
		out = append(out, fmt.Sprintf("(assert (= (s_len %s) %s))", n, cx.num(int64(len(s)))))
		for i := 0; i < len(s); i++ {
			out = append(out, fmt.Sprintf("(assert (= (s_at %s %s) %s))", n, cx.num(int64(i)), cx.num(int64(s[i]))))
		}
		if s == "" {
			// the empty string is the only string of length 0 (x != "" and len(x) > 0 are the same test)
			out = append(out, fmt.Sprintf("(assert (forall ((s Str)) (! (=> (= (s_len s) %s) (= s %s)) :pattern ((s_len s)))))", cx.num(0), n))
		}
	}
	// distinct literals of equal length are different strings: follows from bytes; literals of different length: from s_len.
	return out
}

func (cx *Cx) fresh(prefix string) string {
	cx.nfresh++
	return fmt.Sprintf("%s!%d", prefix, cx.nfresh)
}

// closureID: the fnid of closures of the named function literal (stable within one unit).
func (cx *Cx) closureID(key string) int {
	return 100000 + cx.tagOf(types.NewTuple(types.NewVar(0, nil, "clo_"+sanitize(key), types.Typ[types.Int])))
}

func (cx *Cx) tagOf(t types.Type) int {
	k := types.TypeString(t, nil)
	if n, ok := cx.tags[k]; ok {
		return n
	}
	n := len(cx.tags) + 1
	cx.tags[k] = n
	cx.tagOrder = append(cx.tagOrder, k)
	return n
}

// heap keys ---------------------------------------------------------------

func (cx *Cx) fieldKey(st types.Type, field int) (string, types.Type) {
	s := st.Underlying().(*types.Struct)
	f := s.Field(field)
	key := "H_" + structName(st) + "_" + f.Name()
	if _, ok := cx.heapSort[key]; !ok {
		cx.heapSort[key] = cx.sortOf(f.Type())
		cx.heapKeys = append(cx.heapKeys, key)
	}
	return key, f.Type()
}

func (cx *Cx) cellKey(t types.Type) string {
	es := cx.sortOf(t)
	key := "HC_" + sortName(es)
	if _, ok := cx.heapSort[key]; !ok {
		cx.heapSort[key] = es
		cx.heapKeys = append(cx.heapKeys, key)
	}
	return key
}

// map heaps: value array and has array, per (K,V) sorts
func (cx *Cx) mapKeys(mt *types.Map) (string, string) {
	ks, vs := cx.sortOf(mt.Key()), cx.sortOf(mt.Elem())
	kv := "HMv_" + sortName(ks) + "_" + sortName(vs)
	kh := "HMh_" + sortName(ks) + "_" + sortName(vs)
	if _, ok := cx.heapSort[kv]; !ok {
		cx.heapSort[kv] = fmt.Sprintf("(Array %s %s)", ks, vs)
		cx.heapKeys = append(cx.heapKeys, kv)
		cx.heapSort[kh] = fmt.Sprintf("(Array %s Bool)", ks)
		cx.heapKeys = append(cx.heapKeys, kh)
	}
	return kv, kh
}

// arithmetic --------------------------------------------------------------

func (cx *Cx) wrap(s string, t types.Type) string {
	b, ok := t.Underlying().(*types.Basic)
	if !ok {
		return s
	}
	var bits uint
	switch b.Kind() {
	case types.Uint8:
		bits = 8
	case types.Uint16:
		bits = 16
	case types.Uint32:
		bits = 32
	default:
		return s
	}
	if cx.bv {
		return fmt.Sprintf("(bvand %s (_ bv%d 64))", s, (uint64(1)<<bits)-1)
	}
	return fmt.Sprintf("(mod %s %d)", s, uint64(1)<<bits)
}

func pow2(s string) (int64, bool) {
	var n int64
	if _, err := fmt.Sscanf(s, "%d", &n); err == nil && n >= 0 && n < 62 && fmt.Sprintf("%d", n) == s {
		return n, true
	}
	return 0, false
}

func bvConst(s string) (int64, bool) {
	var n int64
	if _, err := fmt.Sscanf(s, "(_ bv%d 64)", &n); err == nil {
		return n, true
	}
	return 0, false
}

// binop builds the term for a Go binary operation on operands of type t (result type rt).
func (cx *Cx) binop(op token.Token, a, b string, t types.Type, rt types.Type) string {
	if isString(t) {
		switch op {
		case token.EQL:
			return fmt.Sprintf("(= %s %s)", a, b)
		case token.NEQ:
			return fmt.Sprintf("(not (= %s %s))", a, b)
		case token.ADD:
			cx.declCat()
			return fmt.Sprintf("(s_cat %s %s)", a, b)
		}
		panic(unsupported("string operator " + op.String()))
	}
	if isBool(t) {
		switch op {
		case token.EQL:
			return fmt.Sprintf("(= %s %s)", a, b)
		case token.NEQ:
			return fmt.Sprintf("(not (= %s %s))", a, b)
		case token.LAND:
			return fmt.Sprintf("(and %s %s)", a, b)
		case token.LOR:
			return fmt.Sprintf("(or %s %s)", a, b)
		}
		panic(unsupported("bool operator " + op.String()))
	}
	if !isIntType(t) {
		switch op {
		case token.EQL:
			return fmt.Sprintf("(= %s %s)", a, b)
		case token.NEQ:
			return fmt.Sprintf("(not (= %s %s))", a, b)
		}
		panic(unsupported("operator " + op.String() + " on " + t.String()))
	}
	uns := isUnsigned(t)
	if cx.bv {
		switch op {
		case token.ADD:
			return cx.wrap(fmt.Sprintf("(bvadd %s %s)", a, b), rt)
		case token.SUB:
			return cx.wrap(fmt.Sprintf("(bvsub %s %s)", a, b), rt)
		case token.MUL:
			return cx.wrap(fmt.Sprintf("(bvmul %s %s)", a, b), rt)
		case token.QUO:
			if uns {
				return fmt.Sprintf("(bvudiv %s %s)", a, b)
			}
			return fmt.Sprintf("(bvsdiv %s %s)", a, b)
		case token.REM:
			if uns {
				return fmt.Sprintf("(bvurem %s %s)", a, b)
			}
			return fmt.Sprintf("(bvsrem %s %s)", a, b)
		case token.AND:
			return fmt.Sprintf("(bvand %s %s)", a, b)
		case token.OR:
			return fmt.Sprintf("(bvor %s %s)", a, b)
		case token.XOR:
			return fmt.Sprintf("(bvxor %s %s)", a, b)
		case token.AND_NOT:
			return fmt.Sprintf("(bvand %s (bvnot %s))", a, b)
		case token.SHL:
			return cx.wrap(fmt.Sprintf("(bvshl %s %s)", a, b), rt)
		case token.SHR:
			if uns {
				return fmt.Sprintf("(bvlshr %s %s)", a, b)
			}
			return fmt.Sprintf("(bvashr %s %s)", a, b)
		case token.EQL:
			return fmt.Sprintf("(= %s %s)", a, b)
		case token.NEQ:
			return fmt.Sprintf("(not (= %s %s))", a, b)
		case token.LSS:
			if uns {
				return fmt.Sprintf("(bvult %s %s)", a, b)
			}
			return fmt.Sprintf("(bvslt %s %s)", a, b)
		case token.LEQ:
			if uns {
				return fmt.Sprintf("(bvule %s %s)", a, b)
			}
			return fmt.Sprintf("(bvsle %s %s)", a, b)
		case token.GTR:
			if uns {
				return fmt.Sprintf("(bvugt %s %s)", a, b)
			}
			return fmt.Sprintf("(bvsgt %s %s)", a, b)
		case token.GEQ:
			if uns {
				return fmt.Sprintf("(bvuge %s %s)", a, b)
			}
			return fmt.Sprintf("(bvsge %s %s)", a, b)
		}
		panic(unsupported("bv operator " + op.String()))
	}
	switch op {
	case token.ADD:
		return cx.wrap(fmt.Sprintf("(+ %s %s)", a, b), rt)
	case token.SUB:
		return cx.wrap(fmt.Sprintf("(- %s %s)", a, b), rt)
	case token.MUL:
		return cx.wrap(fmt.Sprintf("(* %s %s)", a, b), rt)
	case token.QUO:
		// Go truncates toward zero
		return fmt.Sprintf("(ite (>= %s 0) (ite (> %s 0) (div %s %s) (- (div %s (- %s)))) (ite (> %s 0) (- (div (- %s) %s)) (div (- %s) (- %s))))", a, b, a, b, a, b, b, a, b, a, b)
	case token.REM:
		return fmt.Sprintf("(ite (>= %s 0) (mod %s (abs %s)) (- (mod (- %s) (abs %s))))", a, a, b, a, b)
	case token.EQL:
		return fmt.Sprintf("(= %s %s)", a, b)
	case token.NEQ:
		return fmt.Sprintf("(not (= %s %s))", a, b)
	case token.LSS:
		return fmt.Sprintf("(< %s %s)", a, b)
	case token.LEQ:
		return fmt.Sprintf("(<= %s %s)", a, b)
	case token.GTR:
		return fmt.Sprintf("(> %s %s)", a, b)
	case token.GEQ:
		return fmt.Sprintf("(>= %s %s)", a, b)
	case token.SHL:
		if k, ok := pow2(b); ok {
			return cx.wrap(fmt.Sprintf("(* %s %d)", a, int64(1)<<uint(k)), rt)
		}
	case token.SHR:
		if k, ok := pow2(b); ok {
			return fmt.Sprintf("(div %s %d)", a, int64(1)<<uint(k)) // floor division = arithmetic shift
		}
	case token.AND:
		// x & (2^k - 1) for non-negative x
		for _, pr := range [][2]string{{a, b}, {b, a}} {
			var m int64
			if _, err := fmt.Sscanf(pr[1], "%d", &m); err == nil && fmt.Sprintf("%d", m) == pr[1] && m > 0 && (m&(m+1)) == 0 {
				return fmt.Sprintf("(mod %s %d)", pr[0], m+1)
			}
		}
	}
	panic(unsupported("integer operator " + op.String() + " needs bit-vector mode"))
}

func (cx *Cx) declUF(name, decl string) {
	if _, ok := cx.uf[name]; !ok {
		cx.uf[name] = decl
		cx.ufOrder = append(cx.ufOrder, name)
	}
}

// prelude emits sorts, uninterpreted string functions and spec functions.
func (cx *Cx) prelude() string {
	var b strings.Builder
	b.WriteString("(set-option :produce-models true)\n(set-logic ALL)\n")
	is := cx.intSort()
	b.WriteString("(declare-sort Str 0)\n")
	fmt.Fprintf(&b, "(declare-fun s_len (Str) %s)\n(declare-fun s_at (Str %s) %s)\n(declare-fun s_sub (Str %s %s) Str)\n(declare-fun s_cat (Str Str) Str)\n(declare-fun s_byte (%s) Str)\n", is, is, is, is, is, is)
	return b.String()
}

func sortedInts(m map[int]bool) []int {
	var ks []int
	for k := range m {
		ks = append(ks, k)
	}
	sort.Ints(ks)
	return ks
}

func (cx *Cx) declCat() {
	is := cx.intSort()
	le, lt, plus, minus := "<=", "<", "+", "-"
	if cx.bv {
		le, lt, plus, minus = "bvsle", "bvslt", "bvadd", "bvsub"
	}
	cx.declUF("ax_s_cat", fmt.Sprintf("(assert (forall ((a Str) (b Str)) (! (= (s_len (s_cat a b)) (%s (s_len a) (s_len b))) :pattern ((s_cat a b)))))\n(assert (forall ((a Str) (b Str) (i %s)) (! (= (s_at (s_cat a b) i) (ite (%s i (s_len a)) (s_at a i) (s_at b (%s i (s_len a))))) :pattern ((s_at (s_cat a b) i)))))", plus, is, lt, minus))
	cx.declByteStr()
	_ = le
}

// declByteStr: string(b) for an integer b is the UTF-8 encoding of code point b: one byte below 0x80,
// two bytes below 0x800 (larger values are left unspecified).
func (cx *Cx) declByteStr() {
	is := cx.intSort()
	if cx.bv {
		cx.declUF("ax_s_byte", fmt.Sprintf("(assert (forall ((b %s)) (! (and (=> (bvult b (_ bv128 64)) (and (= (s_len (s_byte b)) (_ bv1 64)) (= (s_at (s_byte b) (_ bv0 64)) b))) (=> (and (bvuge b (_ bv128 64)) (bvult b (_ bv2048 64))) (and (= (s_len (s_byte b)) (_ bv2 64)) (= (s_at (s_byte b) (_ bv0 64)) (bvor (_ bv192 64) (bvlshr b (_ bv6 64)))) (= (s_at (s_byte b) (_ bv1 64)) (bvor (_ bv128 64) (bvand b (_ bv63 64))))))) :pattern ((s_byte b)))))", is))
		return
	}
	cx.declUF("ax_s_byte", "(assert (forall ((b Int)) (! (and (=> (and (<= 0 b) (< b 128)) (and (= (s_len (s_byte b)) 1) (= (s_at (s_byte b) 0) b))) (=> (and (<= 128 b) (< b 2048)) (and (= (s_len (s_byte b)) 2) (= (s_at (s_byte b) 0) (+ 192 (div b 64))) (= (s_at (s_byte b) 1) (+ 128 (mod b 64)))))) :pattern ((s_byte b)))))")
}
