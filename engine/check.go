package main

import (
	"encoding/json"
	"fmt"
	"os"
	"path/filepath"
	"sort"
	"strconv"
	"strings"
	"sync"
	"time"
)

// KnownFinding: an obligation that is refuted on the unchanged tree because of a genuine, recorded defect.
type KnownFinding struct {
	Property    string `json:"property"`
	Function    string `json:"function"`
	Obligation  string `json:"obligation"`
	Status      string `json:"status"` // "known" or "fixed: <commit>"
	Description string `json:"description"`
	Input       string `json:"failing_input,omitempty"`
}

func loadKnown() []KnownFinding {
	var k []KnownFinding
	b, err := os.ReadFile(filepath.Join(verifDir, "known_findings.json"))
	if err != nil {
		return nil
	}
	if err := json.Unmarshal(b, &k); err != nil {
		fmt.Fprintln(os.Stderr, "ENGINE-ERROR: known_findings.json:", err)
		os.Exit(2)
	}
	return k
}

// propIncludes: a property whose sufficient condition contains other properties' mechanisms also checks their obligations
// (C01: same token stream needs the right tree (C02), faithful re-printing (C03) and literal values (C07);
// C06: the formatted output must parse to the same tree, i.e. the printers' parenthesisation (C03)).
// C02: parsing as JavaScript parses presupposes the lexer's tokenisation (C10). C03/C05/C13: printing back, custom operators and the mode flags are stated relative to how the parser groups and where it
// ends statements (C02); C06 additionally replays comments (C15); C08 builds on the token positions (C10) and the encoder
// (C09); C15 on the lexer's trivia handling (C10); C12 on how the lexer delimits tokens and literals (C10, C07). The table is closed under composition below.
var propIncludes = closeIncludes(map[string][]string{
	"C01": {"C02", "C03", "C07", "C06"},
	"C02": {"C10"},
	"C03": {"C02"},
	"C05": {"C02"},
	"C13": {"C02"},
	"C06": {"C03", "C15"},
	"C08": {"C09", "C10"},
	"C12": {"C07", "C10"},
	"C15": {"C10"},
})

func closeIncludes(m map[string][]string) map[string][]string {
	out := map[string][]string{}
	for k := range m {
		seen := map[string]bool{k: true}
		var walk func(p string)
		walk = func(p string) {
			for _, q := range m[p] {
				if !seen[q] {
					seen[q] = true
					out[k] = append(out[k], q)
					walk(q)
				}
			}
		}
		walk(k)
		sort.Strings(out[k])
	}
	return out
}

func hasProp(ps []string, p string) bool {
	for _, q := range ps {
		if q == p {
			return true
		}
		for _, inc := range propIncludes[p] {
			if q == inc {
				return true
			}
		}
	}
	return false
}

// contractServes: the function is listed for the property, or one of its clauses is.
func contractServes(c *Contract, prop string) bool {
	if strings.HasSuffix(c.Key, ".#global") {
		return false // global invariants are obligations of the package's init unit
	}
	if hasProp(c.Props, prop) {
		return true
	}
	all := append(append([]*Clause{}, c.Ensures...), c.AtCalls...)
	for _, ls := range c.Loops {
		all = append(all, ls.Invariants...)
		all = append(all, ls.Before...)
		all = append(all, ls.Each...)
	}
	for _, cl := range all {
		if hasProp(cl.Props, prop) {
			return true
		}
	}
	return false
}

// obligationProps: which properties an obligation of a function counts for.
func obligationProps(con *Contract, name string) []string {
	if strings.HasPrefix(name, "ensures[") {
		lab := name[len("ensures[") : len(name)-1]
		for _, cl := range con.Ensures {
			if cl.Label == lab && len(cl.Props) > 0 {
				return cl.Props
			}
		}
	}
	if strings.HasPrefix(name, "atcall@") {
		if i := strings.LastIndex(name, "["); i >= 0 {
			lab := name[i+1 : len(name)-1]
			for _, cl := range con.AtCalls {
				if cl.Label == lab && len(cl.Props) > 0 {
					return cl.Props
				}
			}
		}
	}
	if strings.HasPrefix(name, "before#") || strings.HasPrefix(name, "each#") {
		if i := strings.Index(name, "["); i >= 0 {
			lab := name[i+1 : len(name)-1]
			for _, ls := range con.Loops {
				for _, cl := range append(append([]*Clause{}, ls.Before...), ls.Each...) {
					if cl.Label == lab && len(cl.Props) > 0 {
						return cl.Props
					}
				}
			}
		}
	}
	if strings.HasPrefix(name, "inv-") {
		if i := strings.Index(name, "["); i >= 0 {
			lab := name[i+1 : len(name)-1]
			for _, ls := range con.Loops {
				for _, cl := range ls.Invariants {
					if cl.Label == lab && len(cl.Props) > 0 {
						return cl.Props
					}
				}
			}
		}
	}
	return con.Props
}

type evidence struct {
	PropertyID  string                 `json:"property_id"`
	Tier        string                 `json:"tier"`
	Seed        int                    `json:"seed"`
	Level       string                 `json:"level"`
	Coverage    map[string]interface{} `json:"coverage"`
	Assumptions []string               `json:"assumptions"`
	WallS       float64                `json:"wall_s"`
	Violations  int                    `json:"violations"`
}

// outDir: where evidence and replay files go (/verif, unless XVC_OUT redirects them for experiments on modified trees).
func outDir() string {
	if d := os.Getenv("XVC_OUT"); d != "" {
		return d
	}
	return verifDir
}

func runCheck(repo, prop, tier string, opt Options, verbose bool) int {
	t0 := time.Now()
	seed, _ := strconv.Atoi(os.Getenv("VERIF_SEED"))
	w, err := loadWorld(repo)
	if err != nil {
		// The tree cannot be loaded / contracts cannot be attached: nothing can be discharged.
		return reportUndecidable(prop, tier, seed, t0, "cannot load the repository with its contracts: "+err.Error())
	}
	var keys []string
	for _, k := range sortedKeys(w.Contracts) {
		if contractServes(w.Contracts[k], prop) && !w.Contracts[k].Abstract {
			keys = append(keys, k)
		}
	}
	var brokenKeys []string
	for _, k := range sortedKeys(w.Broken) {
		if contractServes(w.Broken[k], prop) && !w.Broken[k].Abstract {
			brokenKeys = append(brokenKeys, k)
		}
	}
	if len(keys) == 0 && len(brokenKeys) == 0 {
		fmt.Printf("ENGINE-ERROR: no function under contract for property %s\n", prop)
		return 2
	}
	results := make([]*FnResult, len(keys))
	var wg sync.WaitGroup
	sem := make(chan struct{}, 8)
	solverSem = make(chan struct{}, opt.Workers)
	for i, k := range keys {
		wg.Add(1)
		sem <- struct{}{}
		go func(i int, k string) {
			defer wg.Done()
			defer func() { <-sem }()
			results[i] = w.verifyFn(k, opt)
		}(i, k)
	}
	wg.Wait()
	// lemmas used by these functions are proved as part of the same check
	lemmaSet := map[string]bool{}
	for _, k := range sortedKeys(w.Lemmas) {
		l := w.Lemmas[k]
		for _, fk := range keys {
			if w.Contracts[fk].Pkg == l.Fn.Pkg.Name {
				lemmaSet[k] = true
			}
		}
	}
	var lemmaKeys []string
	for k := range lemmaSet {
		lemmaKeys = append(lemmaKeys, k)
	}
	sort.Strings(lemmaKeys)
	for _, k := range lemmaKeys {
		results = append(results, w.verifyLemma(k, opt))
	}

	known := loadKnown()
	isKnown := func(fn, ob string) *KnownFinding {
		for i := range known {
			// a finding is identified by its obligation; it is the same finding in every check whose property includes the
			// obligation (C15's comment clauses are also obligations of C06 and C01, DESIGN 4 "property includes")
			if known[i].Function == fn && known[i].Obligation == ob && known[i].Status == "known" {
				return &known[i]
			}
		}
		return nil
	}
	total, discharged, violations := 0, 0, 0
	var knownRefuted []string
	var samples []interface{}
	var fnsUnder []string
	solverTime := map[string]int64{}
	byBackend := map[string]int{}
	sampledFn := map[string]int{}
	var bounded []string
	os.MkdirAll(filepath.Join(outDir(), "replays", prop), 0o755)
	violation := func(fn, ob string, o *ObResult, reason string) {
		violations++
		path := filepath.Join(outDir(), "replays", prop, sanitize(fn+"_"+ob)+".json")
		rep := map[string]interface{}{"property": prop, "function": fn, "obligation": ob, "reason": reason}
		suffix := ""
		if o != nil {
			rep["status"] = o.Status
			rep["solver"] = o.Solver
			rep["solver_output"] = trimModel(o.Model)
			rep["site"] = o.Site
			rep["detail"] = o.Detail
			rep["smt_script_bytes"] = len(o.Script)
			sp := strings.TrimSuffix(path, ".json") + ".smt2"
			os.WriteFile(sp, []byte(o.Script), 0o644)
			rep["smt_script"] = sp
			// look for a concrete failing pre-state on the real code (executable contract over the bounded domain),
			// whether the solver refuted the obligation or left it undecided
			confirmed := tryReplay(w, fn, ob, o, rep)
			if !confirmed {
				suffix = " no-failing-input-found"
			}
		} else {
			suffix = " no-failing-input-found"
		}
		b, _ := json.MarshalIndent(rep, "", " ")
		os.WriteFile(path, b, 0o644)
		fmt.Printf("VIOLATION property=%s replay=%s%s\n", prop, path, suffix)
	}
	// every implementation (inside the repository) of an interface method with a type contract needs a contract
	violationReplay := func(fn, ob string, f Failure, reason string) {
		violations++
		path := filepath.Join(outDir(), "replays", prop, sanitize(fn+"_"+ob)+".json")
		rep := map[string]interface{}{"property": prop, "function": fn, "obligation": ob, "reason": reason, "replay": f, "replay_cmd": "/verif/bin/xvc bounded " + fn}
		b, _ := json.MarshalIndent(rep, "", " ")
		os.WriteFile(path, b, 0o644)
		fmt.Printf("VIOLATION property=%s replay=%s\n", prop, path)
	}
	for _, mk := range sortedKeys(ifaceSlots) {
		slot := w.Contracts[ifaceSlots[mk]]
		if slot == nil || !hasProp(slot.Props, prop) {
			continue
		}
		pkg, meth := mk[:strings.Index(mk, ".")], mk[strings.Index(mk, ".")+1:]
		for _, fk := range sortedKeys(w.Funcs) {
			f := w.Funcs[fk]
			if f.Signature.Recv() == nil || f.Name() != meth || w.pkgOfFn(f) != pkg || f.Synthetic != "" {
				continue
			}
			if w.Contracts[fk] == nil && w.Broken[fk] == nil {
				total++
				violation(fk, "typecontract:impl:"+mk, nil, "this method implements an interface method that has a type contract but carries no contract itself, so calls dispatched to it are not covered")
			}
		}
	}
	for _, k := range brokenKeys {
		if kf := isKnown(k, "*"); kf != nil {
			fmt.Printf("KNOWN-FINDING: property=%s %s: %s\n", prop, k, kf.Description)
			knownRefuted = append(knownRefuted, k+"/*")
			continue
		}
		total++
		violation(k, "all-obligations", nil, "the contract of this function no longer fits the code, so none of its obligations can be discharged: "+w.BrokenWhy[k])
	}
	for _, r := range results {
		isLemma := strings.HasPrefix(r.Key, "lemma:")
		var con *Contract
		if !isLemma {
			con = w.Contracts[r.Key]
		}
		if r.Err != "" {
			if r.EngineErr && !r.Vacuous {
				fmt.Printf("ENGINE-ERROR: %s: %s\n", r.Key, r.Err)
			}
			if kf := isKnown(r.Key, "*"); kf != nil {
				fmt.Printf("KNOWN-FINDING: property=%s %s: %s\n", prop, r.Key, kf.Description)
				knownRefuted = append(knownRefuted, r.Key+"/*")
				continue
			}
			// The obligations of this function cannot be generated on this tree (outside the subset, or its loop
			// contracts no longer fit). That is not a proof failure: the same executable contract is run against the
			// real function over the bounded domain instead; it stands in, labelled bounded, never counted as proved.
			if !r.Vacuous && con != nil && loopContractProblem(r.Err) {
				if fb := w.boundedStandIn(r.Key, con, prop); fb != nil {
					if len(fb.Fails) > 0 {
						total++
						f := fb.Fails[0]
						ob := "ensures[" + f.Clause + "]"
						if f.Kind == "panic" {
							ob = "safe:panic"
						}
						violationReplay(r.Key, ob, f, "the function cannot be verified deductively on this tree ("+r.Err+"); its executable contract fails on the real code")
						continue
					}
					fmt.Printf("BOUNDED: property=%s %s: not verifiable deductively on this tree (%s); executable contract (%d clauses) held on %d runs over the bounded domain\n", prop, r.Key, r.Err, fb.nClauses, fb.Runs)
					bounded = append(bounded, fmt.Sprintf("%s: %d runs of the executable contract (clauses %s) over the domain of harness/%s_states.go.txt; reason: %s", r.Key, fb.Runs, strings.Join(fb.Labels, ","), con.Pkg, r.Err))
					continue
				}
			}
			total++
			violation(r.Key, "all-obligations", nil, "the obligations of this function could not be generated or discharged: "+r.Err)
			continue
		}
		fnsUnder = append(fnsUnder, r.Key)
		// a contract that lost clauses (they no longer type-check) cannot carry a proof of its function: what is left
		// undischarged is handed to the bounded executable stand-in
		degradedOK := false
		if con != nil && len(con.Dropped) > 0 {
			unproved := false
			for _, o := range r.Obs {
				if o.Status != "proved" {
					unproved = true
				}
			}
			if unproved {
				if fb := w.boundedStandIn(r.Key, con, prop); fb != nil && len(fb.Fails) == 0 {
					degradedOK = true
					why := con.Dropped[0].Why
					fmt.Printf("BOUNDED: property=%s %s: %d clause(s) of its contract no longer fit the code (%s); executable contract (%d clauses) held on %d runs over the bounded domain\n", prop, r.Key, len(con.Dropped), why, fb.nClauses, fb.Runs)
					bounded = append(bounded, fmt.Sprintf("%s: %d runs of the executable contract (clauses %s); reason: loop/trace clauses no longer type-check (%s)", r.Key, fb.Runs, strings.Join(fb.Labels, ","), why))
				} else if fb != nil && len(fb.Fails) > 0 {
					total++
					f := fb.Fails[0]
					violationReplay(r.Key, "ensures["+f.Clause+"]", f, "part of the contract no longer fits the code and the executable contract fails on the real code")
					continue
				}
			}
		}
		if con != nil {
			var bl []string
			for _, cl := range con.Ensures {
				if cl.BoundedOnly && (len(cl.Props) == 0 || hasProp(cl.Props, prop)) {
					bl = append(bl, cl.Label)
				}
			}
			if len(bl) > 0 {
				fb := w.boundedStandIn(r.Key, con, prop)
				if fb == nil {
					total++
					violation(r.Key, "ensures["+bl[0]+"]", nil, "the bounded clause(s) "+strings.Join(bl, ",")+" could not be run against the real code (no executable harness)")
				} else if len(fb.Fails) > 0 {
					total++
					f := fb.Fails[0]
					ob := "ensures[" + f.Clause + "]"
					if f.Kind == "panic" {
						ob = "safe:panic"
					}
					violationReplay(r.Key, ob, f, "the executable contract (bounded clauses "+strings.Join(bl, ",")+") fails on the real code")
				} else {
					fmt.Printf("BOUNDED: property=%s %s: clause(s) %s are checked by running the real function only: held on %d runs over the bounded domain (not counted as proved)\n", prop, r.Key, strings.Join(bl, ","), fb.Runs)
					bounded = append(bounded, fmt.Sprintf("%s: bounded-only clause(s) %s: %d runs of the executable contract over the domain of harness/%s_states.go.txt", r.Key, strings.Join(bl, ","), fb.Runs, con.Pkg))
				}
			}
		}
		for _, o := range r.Obs {
			ops := []string(nil)
			if con != nil {
				ops = obligationProps(con, o.Name)
			}
			if len(o.Props) > 0 {
				ops = o.Props
			}
			if con != nil && !hasProp(ops, prop) {
				continue
			}
			if degradedOK && o.Status != "proved" {
				continue
			}
			solverTime[o.Solver] += o.TimeMS
			if kf := isKnown(r.Key, o.Name); kf != nil {
				if o.Status != "proved" {
					fmt.Printf("KNOWN-FINDING: property=%s %s/%s: %s\n", prop, r.Key, o.Name, kf.Description)
					knownRefuted = append(knownRefuted, r.Key+"/"+o.Name)
					continue
				}
			}
			total++
			if o.Status == "proved" {
				discharged++
				byBackend[o.Solver]++
				// a few obligations written out, at most two per function, spread over the functions
				if len(samples) < 12 && sampledFn[r.Key] < 2 && (len(samples) < 4 || !strings.HasPrefix(o.Name, "safe:")) {
					sampledFn[r.Key]++
					samples = append(samples, map[string]interface{}{"function": r.Key, "obligation": o.Name, "instances_paths": o.Instances, "solver": o.Solver, "ms": o.TimeMS})
				}
				continue
			}
			violation(r.Key, o.Name, o, "obligation "+o.Status+" by the solver")
		}
		if verbose {
			printFnResult(r, false)
		}
	}
	// thorough tier: the executable form of every contract is also run against the real functions over the bounded
	// domains (validates the specifications and the engine against the code that runs)
	execRuns, execFns := 0, 0
	if opt.Thorough {
		for _, r := range results {
			con := w.Contracts[r.Key]
			if con == nil || r.Err != "" {
				continue
			}
			fb := w.boundedStandIn(r.Key, con, prop)
			if fb == nil {
				continue
			}
			execFns++
			execRuns += fb.Runs
			for _, f := range fb.Fails {
				if f.Kind == "ensures" && !hasProp(obligationProps(con, "ensures["+f.Clause+"]"), prop) {
					continue
				}
				total++
				ob := "ensures[" + f.Clause + "]"
				if f.Kind == "panic" {
					ob = "safe:panic"
				}
				violationReplay(r.Key, ob, f, "the executable form of the contract fails on the real code although the obligation was discharged: specification or engine error")
				break
			}
		}
	}
	level := propLevel(prop)
	ev := evidence{PropertyID: prop, Tier: tier, Seed: seed, Level: level, WallS: time.Since(t0).Seconds(), Violations: violations}
	ev.Coverage = map[string]interface{}{
		"obligations":              total,
		"discharged":               discharged,
		"checker_cmd":              fmt.Sprintf("/verif/bin/xvc check %s --tier %s", prop, tier),
		"trusted_base":             trustedBase(),
		"functions_under_contract": fnsUnder,
		"known_refuted":            knownRefuted,
		"bounded":                  bounded,
		"solver_time_ms":           solverTime,
		"discharged_by_backend":    byBackend,
		"samples":                  samples,
		"explanation":              propExplanation(prop),
	}
	if opt.Thorough {
		ev.Coverage["executable_contract_runs"] = execRuns
		ev.Coverage["executable_contract_functions"] = execFns
	}
	ev.Assumptions = propAssumptions(w, prop, keys)
	os.MkdirAll(filepath.Join(outDir(), "evidence"), 0o755)
	b, _ := json.MarshalIndent(ev, "", " ")
	os.WriteFile(filepath.Join(outDir(), "evidence", prop+".json"), b, 0o644)
	fmt.Printf("xvc %s: %d/%d obligations discharged over %d functions, %d known findings, %d violations, %.1fs\n", prop, discharged, total, len(fnsUnder), len(knownRefuted), violations, time.Since(t0).Seconds())
	if violations > 0 {
		return 1
	}
	return 0
}

func reportUndecidable(prop, tier string, seed int, t0 time.Time, reason string) int {
	os.MkdirAll(filepath.Join(outDir(), "replays", prop), 0o755)
	path := filepath.Join(outDir(), "replays", prop, "load.json")
	b, _ := json.MarshalIndent(map[string]interface{}{"property": prop, "obligation": "all-obligations", "reason": reason}, "", " ")
	os.WriteFile(path, b, 0o644)
	fmt.Printf("ENGINE-NOTE: %s\n", reason)
	fmt.Printf("VIOLATION property=%s replay=%s no-failing-input-found\n", prop, path)
	ev := evidence{PropertyID: prop, Tier: tier, Seed: seed, Level: propLevel(prop), WallS: time.Since(t0).Seconds(), Violations: 1}
	ev.Coverage = map[string]interface{}{"obligations": 1, "discharged": 0, "checker_cmd": "/verif/bin/xvc check " + prop, "trusted_base": trustedBase(), "explanation": reason, "evaluations": 1, "distinct_nontrivial": 0}
	os.MkdirAll(filepath.Join(outDir(), "evidence"), 0o755)
	eb, _ := json.MarshalIndent(ev, "", " ")
	os.WriteFile(filepath.Join(outDir(), "evidence", prop+".json"), eb, 0o644)
	return 1
}

func trustedBase() []string {
	return []string{
		"golang.org/x/tools go/ssa v0.29.0 (NaiveForm) represents the compiled Go source faithfully",
		"xvc's symbolic semantics of the SSA instruction subset (DESIGN.md, appendix)",
		"z3 4.8.12 / z3 5.1.0 / cvc5 1.0 answer unsat only for unsatisfiable queries",
		"Go int treated as a mathematical integer outside bit-vector mode (no overflow modelled)",
		"slice values have value semantics; backing-array sharing is excluded by the owned / safe:alias discipline, not modelled",
		"trusted contracts for strings.Builder (write history), strings.TrimRight/TrimSpace/Split/Join/Repeat, fmt.Sprintf/Errorf, strconv.ParseInt/ParseFloat, maps.Copy, slices.Contains, append",
	}
}

// loopContractProblem: the function could not be verified because its loop structure no longer matches its loop
// contracts (a loop was added, split off into a helper, or its invariant mentions locals that were renamed) -- as
// opposed to code the engine has no semantics for, which stays a hard failure.
func loopContractProblem(msg string) bool {
	// "solver error": the verification condition could not even be expressed (ill-sorted term after a type of a local
	// named in a loop clause changed) -- an engine limitation, not a verdict
	for _, k := range []string{"has no loop contract", "loop in inlined function", "neither invariant nor unroll", "contract names loop", "solver error:"} {
		if strings.Contains(msg, k) {
			return true
		}
	}
	return false
}

type standIn struct {
	*boundedResult
	nClauses int
}

// boundedStandIn runs the executable contract of fn over the bounded domain. nil if there is no harness for it or if
// none of its executable clauses serves the property (then nothing would be checked at all).
func (w *World) boundedStandIn(fn string, con *Contract, prop string) *standIn {
	harnessMu.Lock()
	r := harnessCache[fn]
	if r == nil {
		r = w.boundedRun(con.Pkg, []string{fn}, fn)
		harnessCache[fn] = r
	}
	harnessMu.Unlock()
	if r.Err != "" || r.Runs == 0 {
		return nil
	}
	n := 0
	for _, lab := range r.Labels {
		if hasProp(obligationProps(con, "ensures["+lab+"]"), prop) {
			n++
		}
	}
	if n == 0 {
		return nil
	}
	return &standIn{r, n}
}

// tryReplay is set up in replay.go
