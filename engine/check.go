package main

func runCheck(repo, prop, tier string, opt Options, verbose bool) int { return 2 }
