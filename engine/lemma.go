package main

import (
	"fmt"
	"go/ast"
	"go/constant"
	"go/parser"
	"go/types"
	"regexp"
	"sort"
	"strings"
	"time"
)

// A lemma is a spec function  //xvc:lemma induct=<param> trigger=<expr>[;<expr>]  func lemmaX(params) bool { return P }.
// It is (a) proved once by induction on the named integer parameter (strong induction, the other parameters fixed),
// (b) assumed as a quantified axiom, with the given triggers, in every query that uses the function heading its first trigger.
type Lemma struct {
	Key      string
	Fn       *SpecFn
	Induct   string
	Triggers []string // Go expression texts
	Props    []string
	Measure  string // optional: induction on this integer expression (must be >= 0 for the hypothesis to apply)
	When     string // spec function whose use activates the lemma (default: head of the first trigger)
}

var reLemma = regexp.MustCompile(`xvc:lemma\s+(.*)$`)

func (w *World) collectLemmas() error {
	w.Lemmas = map[string]*Lemma{}
	for key, sf := range w.SpecDecls {
		if sf.Decl.Doc == nil {
			continue
		}
		for _, c := range sf.Decl.Doc.List {
			m := reLemma.FindStringSubmatch(c.Text)
			if m == nil {
				continue
			}
			l := &Lemma{Key: key, Fn: sf}
			for _, f := range strings.Fields(m[1]) {
				switch {
				case strings.HasPrefix(f, "induct="):
					l.Induct = f[7:]
				case strings.HasPrefix(f, "trigger="):
					l.Triggers = strings.Split(f[8:], ";")
				case strings.HasPrefix(f, "props="):
					l.Props = strings.Split(f[6:], ",")
				case strings.HasPrefix(f, "when="):
					l.When = f[5:]
				case strings.HasPrefix(f, "measure="):
					l.Measure = f[8:]
				}
			}
			if len(l.Triggers) == 0 {
				return fmt.Errorf("lemma %s needs trigger=", key)
			}
			w.Lemmas[key] = l
		}
	}
	return nil
}

func (l *Lemma) params(cx *Cx) ([]string, []string, map[string]Val) {
	var names, sorts []string
	vars := map[string]Val{}
	for _, f := range l.Fn.Decl.Type.Params.List {
		for _, nm := range f.Names {
			t := l.Fn.Pkg.TypesInfo.TypeOf(f.Type)
			n := "lm_" + nm.Name
			names = append(names, n)
			sorts = append(sorts, cx.sortOf(t))
			vars[nm.Name] = Val{S: n, T: t}
		}
	}
	return names, sorts, vars
}

// triggerHead: spec key of the function called at the head of the first trigger.
func (l *Lemma) triggerHead() string {
	if l.When != "" {
		return l.Fn.Pkg.Name + "." + l.When
	}
	t := l.Triggers[0]
	if i := strings.Index(t, "("); i >= 0 {
		t = t[:i]
	}
	return l.Fn.Pkg.Name + "." + strings.TrimSpace(t)
}

func (l *Lemma) translate(cx *Cx, vars map[string]Val) (body string, trigs []string) {
	env := &Env{cx: cx, vars: vars, info: l.Fn.Pkg.TypesInfo, pkg: l.Fn.Pkg.Name}
	body = env.block(l.Fn.Decl.Body.List).S
	for _, t := range l.Triggers {
		x, err := parser.ParseExpr(t)
		if err != nil {
			panic(unsupported("lemma trigger " + t + ": " + err.Error()))
		}
		tenv := &Env{cx: cx, vars: vars, info: nil, pkg: l.Fn.Pkg.Name}
		trigs = append(trigs, tenv.triggerExpr(x, l.Fn))
	}
	return
}

// triggerExpr translates a trigger (calls of spec functions on parameters / simple arithmetic) without type info.
func (e *Env) triggerExpr(x ast.Expr, sf *SpecFn) string {
	cx := e.cx
	switch x := x.(type) {
	case *ast.Ident:
		if v, ok := e.vars[x.Name]; ok {
			return v.S
		}
		if c, ok := sf.Pkg.Types.Scope().Lookup(x.Name).(*types.Const); ok && c.Val().Kind() == constant.String {
			return cx.strLit(constant.StringVal(c.Val()))
		}
	case *ast.BasicLit:
		var n int64
		fmt.Sscanf(x.Value, "%d", &n)
		return cx.num(n)
	case *ast.ParenExpr:
		return e.triggerExpr(x.X, sf)
	case *ast.BinaryExpr:
		a, b := e.triggerExpr(x.X, sf), e.triggerExpr(x.Y, sf)
		return cx.binop(x.Op, a, b, types.Typ[types.Int], types.Typ[types.Int])
	case *ast.CallExpr:
		if id, ok := x.Fun.(*ast.Ident); ok {
			if id.Name == "len" {
				return fmt.Sprintf("(s_len %s)", e.triggerExpr(x.Args[0], sf))
			}
			key := sf.Pkg.Name + "." + id.Name
			if cx.w.SpecDecls[key] != nil {
				cx.useSpec(key)
				var as []string
				for _, a := range x.Args {
					as = append(as, e.triggerExpr(a, sf))
				}
				return fmt.Sprintf("(%s %s)", specSMTName(key), strings.Join(as, " "))
			}
		}
	case *ast.IndexExpr:
		return fmt.Sprintf("(s_at %s %s)", e.triggerExpr(x.X, sf), e.triggerExpr(x.Index, sf))
	}
	panic(unsupported("unsupported trigger expression in lemma " + sf.Key))
}

// lemmaAxioms returns the axioms of all lemmas whose trigger head is in use (to a fixpoint), excluding `except`.
func (cx *Cx) lemmaAxioms(except string) []string {
	var out []string
	done := map[string]bool{}
	for changed := true; changed; {
		changed = false
		cx.closeSpecUse()
		var keys []string
		for k := range cx.w.Lemmas {
			keys = append(keys, k)
		}
		sort.Strings(keys)
		for _, k := range keys {
			l := cx.w.Lemmas[k]
			if done[k] || k == except || !cx.specUsed[l.triggerHead()] {
				continue
			}
			done[k] = true
			changed = true
			names, sorts, vars := l.params(cx)
			body, trigs := l.translate(cx, vars)
			var bs []string
			for i := range names {
				bs = append(bs, fmt.Sprintf("(%s %s)", names[i], sorts[i]))
			}
			var ps []string
			for _, t := range trigs {
				ps = append(ps, ":pattern ("+t+")")
			}
			out = append(out, fmt.Sprintf("(assert (forall (%s) (! %s %s)))", strings.Join(bs, " "), body, strings.Join(ps, " ")))
			cx.lemmasUsed = append(cx.lemmasUsed, k)
		}
	}
	return out
}

// verifyLemma proves a lemma by strong induction on its induction parameter.
func (w *World) verifyLemma(key string, opt Options) *FnResult {
	t0 := time.Now()
	res := &FnResult{Key: "lemma:" + key}
	l := w.Lemmas[key]
	defer func() {
		res.WallMS = time.Since(t0).Milliseconds()
		if r := recover(); r != nil {
			if u, ok := r.(unsupported); ok {
				res.Err = u.Error()
				return
			}
			panic(r)
		}
	}()
	cx := newCx(w, hasDirective(l.Fn, "xvc:bv"))
	names, sorts, vars := l.params(cx)
	body, _ := l.translate(cx, vars)
	x := &Exec{w: w, cx: cx, key: res.Key}
	var script []entry
	for i := range names {
		script = append(script, entry{kind: 'd', text: fmt.Sprintf("(declare-const %s %s)", names[i], sorts[i])})
	}
	if l.Induct != "" {
		iv, ok := vars[l.Induct]
		if !ok {
			panic(unsupported("lemma " + key + ": no parameter " + l.Induct))
		}
		k := "lm_k"
		kvars := map[string]Val{}
		for n, v := range vars {
			kvars[n] = v
		}
		kvars[l.Induct] = Val{S: k, T: iv.T}
		kbody, _ := l.translate(cx, kvars)
		lt, le := "<", "<="
		if cx.bv {
			lt, le = "bvslt", "bvsle"
		}
		if l.Measure != "" {
			mx, err := parser.ParseExpr(l.Measure)
			if err != nil {
				panic(unsupported("lemma measure: " + err.Error()))
			}
			mj := (&Env{cx: cx, vars: vars}).triggerExpr(mx, l.Fn)
			mk := (&Env{cx: cx, vars: kvars}).triggerExpr(mx, l.Fn)
			script = append(script, entry{kind: 'a', text: fmt.Sprintf("(forall ((%s %s)) (=> (and (%s %s %s) (%s %s %s)) %s))", k, cx.intSort(), le, cx.num(0), mk, lt, mk, mj, kbody)})
		} else {
			script = append(script, entry{kind: 'a', text: fmt.Sprintf("(forall ((%s %s)) (=> (%s %s %s) %s))", k, cx.intSort(), lt, k, iv.S, kbody)})
		}
	}
	script = append(script, entry{kind: 'c', name: "lemma", text: body, site: key})
	x.paths = [][]entry{script}
	res.Paths = 1
	x.exceptLemma = key
	x.solve(res, opt)
	return res
}
