package main

import "fmt"

type propInfo struct {
	level       string
	explanation string
	assumptions []string
}

var propTable = map[string]propInfo{
	"C07": {"proof", "Literal handling as contracts on the real functions: encodeUTF8 is proved (64-bit bit-vector semantics, loop-free, all inputs) to produce, for every Unicode scalar value, exactly the well-formed UTF-8 sequence that an RFC 3629 decoder maps back to it, and is only ever called with scalar values (precondition proved at both call sites); hexDigitValue/isHexDigit/mustStayEscaped are exact; readString is specified per scanned element (per-iteration write sequences over the bytes after the cursor): ordinary bytes are copied verbatim with the cursor advancing by one, a double quote gets a backslash (the printer re-quotes with double quotes), unknown escapes (incl. line continuations and legacy octal) are kept verbatim, \\xHH and \\uHHHH are decoded only when the value can be written raw (not a quote, backslash, CR, LF, surrogate, decimal digit, and for \\xHH below 0x80) and otherwise kept verbatim, invalid \\x/\\u sequences are kept verbatim; readRawString copies bytes verbatim, keeps a backslash together with the character after it and decodes only the escaped backtick, which MultiStringLiteral.WriteTo escapes again; both scanners stop only at their delimiter or at the end of the input; number and identifier tokens are verbatim source slices (C10 [slice]); the parser stores literal tokens verbatim ([node]) and the literal printers write Token.Literal / the stored value unchanged between the delimiters ([syntax]); pretty-mode post-processing trims only spaces at line ends.", []string{
		"the end-to-end statement 'the emitted literal denotes the same ECMAScript string value' is the composition of the per-element clauses (Meta M7, an induction over the literal's elements); a product-automaton proof over the whole literal is not mechanised",
		"digits decoded from escapes stay escaped, so no decoded character can join a kept \\0/octal escape; both scanners are proved to end only at their delimiter or at the end of input (NUL is an ordinary byte); readRawString keeps a backslash together with the character after it. braced \\u{...} escapes: the collected digits are exactly the source bytes (none skipped) and the write-back of kept escapes is byte for byte; the value computed from the digits is covered by the scalar-value precondition of encodeUTF8 only",
		"strconv.ParseInt/ParseFloat acceptance of numeric literals is a trusted library contract; JavaScript's numeric tokenisation agrees for literals starting with a digit",
	}},
	"C01": {"proof", "The syntactic sufficient condition for behaviour preservation is stated as contracts and discharged: (a) every parse function stores the token it consumes verbatim in the node it builds ([node] clauses: Token == the current token at entry, Operator/Value == its literal, children == the results of the sub-parses, compound assignment operator '+'/'-' from the token type); (b) every printer re-emits its node's tokens and children in source order -- the [syntax] clause of each of the 29 WriteTo methods fixes the exact sequence of code-writer calls (leading comments, mapping, token text, children, brackets, semicolon), loops by per-iteration trace contracts; (c) Compile prints the program exactly once through a fresh writer and returns the writer's text unprocessed in compact mode.", []string{
		"Meta M5: equal token streams with equal literal values and statement boundaries give equal behaviour (XJS is a subset of JavaScript); no JavaScript engine is modelled",
		"includes the obligations of C02 (tree shape), C03 (parenthesisation, no sign-token fusion) and C07 (literal values)",
		"printers are verified for well-formed trees ([wf] hypotheses: mandatory children non-nil)",
	}},
	"C02": {"proof", "Mechanism contracts of the Pratt parser, discharged on the real functions: the package-level binding-power table equals the ECMAScript precedence classes jsLevel (proved for package initialisation) and is copied unchanged into every parser; the climbing loop continues only while the next token binds strictly tighter than the requested level, never past ';' nor across a line break before '++'/'--' (restricted production), and stops only when that condition fails ([climb.strict]/[climb.exit]); operand levels: binary = own level (left associative), assignment/compound assignment = lowest again (right associative), unary = UNARY, member property = MEMBER, grouping/index = lowest; statement dispatch equals the subset grammar's table; statement termination (explicit ';', end/'}' without consuming, line break before a statement-starting token, error on the same line in strict mode); `return` takes no operand across a line break. Two genuine defects (restricted productions) found and fixed.", []string{
		"Meta M1: table + strict loop + operand-at-own-level implies the stratified left-associative grammar (Pratt-parser correctness); completeness over the whole subset grammar ('parsing succeeds for every program') is out of reach of function contracts",
		"AfterNewline comes from C10's [nl] clause",
	}},
	"C03": {"proof", "Printer/parser agreement and parenthesisation as contracts: operatorPrecedence equals astLevel for every token type; astLevel equals the parser's jsLevel and the two constant blocks are member-wise equal (cross-package lemma unit); each Precedence() method returns its node kind's class; BinaryExpression/UnaryExpression/PostfixExpression bracket an operand exactly when the stratified-grammar rule demands it (left: strictly looser, right: looser or equal, unary/postfix operand: strictly looser), with the Precedence() queries made on the right children; GroupedExpression always brackets and is atomic; assignment values are parsed right-associatively and printed without brackets (C02 [operand.level]).", []string{
		"Meta M2: print-then-parse = identity by induction over trees from the per-node clauses and the Pratt lemma (M1); 'compiling is a fixed point' is a corollary",
		"sign-token fusion (`1 - -2` printed as `1--2`, `a + ++b`) is excluded by the writer invariant NoFusion (a fold over the write history), proved for every writer method and printer after the fix; the statement-start hazard (an expression statement beginning with `{` or `function`) is NOT covered by a contract",
	}},
	"C06": {"proof", "Layout-only behaviour of the code writer and the printers: WriteSpace/WriteNewline/WriteIndent/IncreaseIndent/DecreaseIndent write nothing, record no mapping and are no-ops in compact mode; deferred layout consists of ' ', newline and indentation markers only and is written by flushPending once each, in order; WriteSemi emits ';' iff compact or WriteSemicolons and nothing else otherwise; every printer leaves IndentLevel as it found it; options (PrettyPrint, IndentString, WriteSemicolons) are outside every modifies clause; the [syntax] clause of each printer is stated over the token events only (layout calls ignored), hence identical for every option combination; Compile returns the writer's text as it stands in every configuration (no clean-up pass; the writer itself writes nothing in front of the first token, does not indent blank lines and does not print the blank lines at the very end); without optional semicolons the omitted terminator is remembered across layout and comments and written back by the next token write exactly when that token starts with ( [ + - or a backtick (restoreSemi), and before else (RequireSemi); the parser's statement-termination clauses (ExpectSemicolonASI) count for this property as well.", []string{
		"'formatting the formatted output reproduces it' needs parse-then-print and the trivia round trip (Meta M2); not mechanised",
		"three genuine defects found and fixed here: `if (a) b else c` without semicolons, statements starting with ( [ + - or a backtick joining the previous statement, and the clean-up pass that reached into multi-line literals (removed)",
	}},
	"C08": {"proof", "Position invariant J (the mapper's cursor equals the generated position of the writer's write history, where a string write advances like AdvanceString and a byte write is a column step or a line break) is required and ensured by every code-writer method and every printer, in compact and pretty mode (after the fix that routes layout whitespace and comments through the mapper); AddMapping/AddNamedMapping only request a mapping (nothing is written, nothing recorded); WriteString/WriteRune record the requested mapping after the deferred layout and after a separating space, and their [recorded] postcondition says that the segment's generated position advanced over the token text is the mapper's cursor, i.e. the segment starts exactly at the token's first character and points at the requested source position[, name] (after the fix that defers the mapping to the token write); layout-only methods, emit and comment replay keep the request and record nothing; in every printer the mapping request of a token is immediately followed by that token's text ([syntax] sequences), identifiers record a named mapping with their own name; Compile attaches a fresh mapper per call. Token start positions are C10's, the mappings string is C09's.", []string{
		"generated positions are defined per write (a '\\r' ending one write and a '\\n' starting the next count as two breaks); columns are bytes, i.e. the proof assumes ASCII output (Source Map v3 counts UTF-16 units)",
		"nothing touches the text after the mapper has recorded positions: Compile [code] (the former clean-up pass, which could shift every line, was removed by a fix)",
		"single characters are written with WriteRune only for ASCII other than CR (precondition checked at every call site)",
	}},
	"C15": {"proof", "Trivia pipeline as contracts: the lexer attaches the comment/blank-line list to the next token (C10 [trivia]); the parser stores consumed tokens verbatim, including the closing-brace token of blocks ([node]/[rbrace] clauses); each printer replays the leading comments of every token it stores exactly once, immediately before that token's mapping and text ([syntax] sequences, incl. the comments before a closing brace/bracket/parenthesis); WriteLeadingComments writes nothing in compact mode and nothing for an empty list, and in pretty mode leaves the writer on a fresh line (pending newline + indentation), so comment text cannot run into code.", []string{
		"placement 'in front of the same statement' end-to-end is the induction over the tree (Meta M2)",
		"comments before the end of input are attached to the end-of-input token, which ParseProgram now stores in Program.EOF ([eof]) and Program.WriteTo replays after the last statement ([syntax]); defect found and fixed",
		"'verbatim' is up to trailing spaces (trimmed by the lexer); comments found in front of a semicolon are handed to the token after it (the semicolon is not kept in the tree): defect found and fixed",
	}},
	"C16": {"proof", "Every parse function of package parser (statement, expression, prefix, infix, list and helper functions, the interceptor wrappers, the registered-operator closures and the constructor) is verified against the frame contract [ctx]: the context stack on return equals the stack on entry, element-wise, on every return path including early error returns (deferred pops are executed by the engine's defer semantics). PushContext/PopContext/CurrentContext/IsInFunction are verified against exact sequence specifications (append, drop-last, last element, membership). Bracketing is stated as call-site obligations: every statement parsed inside ParseBlockStatement sees entry++[Block], the body of a function declaration/expression is parsed with entry++[Function], and no other parse step changes the stack around its sub-steps ([ctx.stable] at every call). newWithOptions/Build establish [Global]; by the frame contract ParseProgram returns with the stack it started with, for every input.", []string{
		"the 'actual syntactic nesting' is the parser's own recursion: the contracts show the stack equals the chain of enclosing block/function activations (induction over the call tree, Meta M2, not mechanised); whether those activations are ECMAScript's nesting is property C02",
		"reading fixed in DESIGN.md: a function body is a block inside a function, so directly inside a function body CurrentContext() is BlockContext and IsInFunction() is true",
		"functions stored in the parser's function-typed fields obey the slot contracts: checked at every store inside the package; plugin interceptors are assumed pass-through and plugin createExpr callbacks are assumed to touch parser state only through the thunk they are given (hypotheses of C04/C05)",
	}},
	"C11": {"proof", "Safety obligations (nil dereference, index/slice bounds, nil-map store, failed type assertion, explicit panic, nil interface receiver) are generated without annotation for every instruction of every function of packages lexer, parser, ast, compiler and debug and discharged under the proved invariants (lexInv, parserInv, cwInv) -- for the printers under their one-level well-formedness hypotheses [wf]. The error contract is stated on the real functions: ParseProgram returns a non-nil program, err != nil iff len(errors) > 0, and no statement list (program or block) contains a nil or typed-nil entry (the engine's (tag,payload) interface model distinguishes typed nil from nil); the error list only grows; every statement/expression/prefix/infix parse step returns nil only after recording an error (slot contracts, incl. interceptor wrappers and registered operators); every error is recorded through AddErrorAtToken, whose precondition demands a token that came from Lexer.NextToken (ghost predicate LexTok), so every error range is a token range; and every node-building parse function proves the [wf] clause: if it recorded no error, the node it returns has all mandatory children -- exactly the hypothesis under which that node's printer is proved not to panic.", []string{
		"termination: every loop of the parser has a proved variant over parserMeasure (bytes behind the lexer cursor plus non-EOF look-ahead tokens; NextToken decreases it while the current token is not EOF, nothing increases it, the end of input is sticky), and the mutual recursion is ranked: every call between parse functions either goes down in rank or follows a strict decrease of the measure since the caller's entry (atcall [term]); hypotheses: no prefix and no infix operator is registered on EOF; interceptor wrappers (finite chains) and the operand thunks of registered operators are exempt (norank); lexer loops see C10",
		"'no error => every node satisfies its printer's [wf] hypothesis => compiling never panics' composes the per-node [wf] clauses by induction over the tree (Meta M2); the per-node facts are mechanised on both sides",
		"plugin hypotheses: interceptors are pass-through; createExpr callbacks return a node (never nil) and act only through the thunk they are handed",
		"LexTok is a ghost predicate whose only introduction rule is the definitional postcondition of Lexer.NextToken",
		"strconv.ParseInt/ParseFloat, fmt.Sprintf/Errorf are trusted library contracts",
	}},
	"C04": {"proof", "Interceptor wrappers are verified with the ghost call trace: each wrapper calls its interceptor exactly once, with the same parser, handing it a thunk that calls the rest of the chain exactly once with the same parser (and the same binding power), and returns that result; the parser state is untouched between wrapper entry and the call of the rest of the chain. The expression wrapper publishes the step's binding power in currentExpressionPrecedence during the call and restores the previous value on every exit; every parse function preserves that field ([cep] in the frame contract), so a re-entrant ParsePrefixExpression/ParseRemainingExpression at any depth continues with the binding power of the innermost wrapper. Variables captured by function literals and assigned by one of them are treated as shared between activations (forgotten after every call), so a saved value hoisted out of the wrapper fails [cep]. Builder.Use*Interceptor append in installation order, Build hands the lists over unchanged, the lexer's NextToken runs the token chain after trivia skipping (C10).", []string{
		"plugin interceptors are pass-through (interceptor(p, next) == next()): the property's hypothesis, encoded as the 'passthrough' function-variable contract",
		"installation order: use*Interceptor wraps exactly the previous slot value (capturedVar clauses) and newWithOptions installs the interceptors from the last to the first, each once ([order] clauses); unfolding this into the closed form I0.I1...base is Meta M4",
		"token interceptor order is not claimed (the property states none)",
	}},
	"C05": {"proof", "lexer.Builder.RegisterTokenType and the three parser.Builder.Register*Operator methods are verified against whole-object postconditions: a duplicate is refused with a non-nil error and leaves every operator list and bookkeeping map unchanged; a new operator is appended as exactly that entry and recorded at exactly that key, other keys untouched. NewBuilder's seed sets are verified against the shared specification sets builtinPrefix/builtinInfix/builtinPostfix, and the package-level binding-power table against jsLevel, so the hand-maintained lists cannot drift apart. newWithOptions copies the table into a fresh per-parser map; registerInfixOperator writes exactly the registered level, registerPostfixOperator exactly CALL, other entries untouched. The operand thunks of registered operators are verified (ghost call trace) to perform the same steps as the built-in code paths: infix = read own level from the per-parser table, advance, parse at that level; prefix = advance, parse at UNARY; postfix consumes no token.", []string{
		"'groups exactly like a built-in operator of that level' follows from identical operand parsing plus the Pratt-parser lemma (Meta M1), not mechanised",
		"plugin createExpr callbacks affect parser state only by invoking the operand thunk they are handed, any number of times (the frame contract is proved reflexive and transitive by lemma_parseFrame_refl/trans)",
	}},
	"C13": {"proof", "The mode flags are outside the modifies clause of every parse function (frame obligations at every store), are set only by newWithOptions from the builder's fields, which Build copies unchanged and only With*Mode writes. The site-local behaviour is stated on the real functions: ExpectSemicolonASI in tolerant mode never records an error and returns true; ParseBlockStatement records the unclosed-block error exactly in strict mode; ParseRemainingExpressionWithPrecedence never continues an expression across a line break before '(' or '[' in smart mode and otherwise stops exactly when the strict climbing condition fails.", []string{
		"lifting site-local equivalence of two runs that differ in a flag to whole-run equivalence is the standard non-interference argument (Meta M3), not mechanised",
	}},
	"C14": {"proof", "Sequential isolation as frame/ownership conditions: no parse function modifies anything outside the parser it is given and the lexer that parser owns (modifies clauses, checked at every heap store and map update); newWithOptions returns a fresh parser whose three tables are fresh objects distinct from the package-level table; Build (lexer and parser) has an empty modifies clause on the builder and returns fresh objects; NewBuilder returns fresh bookkeeping maps; package-level variables are only written by package initialisation. Compiling never modifies the tree: node fields are outside the modifies clause of every printer and writer method, and slices stored in nodes are only ever read (prefix reslices are checked to flow into read-only uses). Compile configures a fresh writer from the compiler's own fields only (a fresh mapper iff a map is requested) and returns the writer's text unprocessed; requesting a mapping without a mapper changes nothing (AddMapping [no-mapper]), so the code does not depend on the source-map flag; debug.ToString is one WriteTo on a fresh compact writer.", []string{
		"schedules and the race detector are outside what contracts can state; concurrency safety follows from 'no shared mutable state' (Meta M3)",
		"slice values have value semantics; backing-array sharing is excluded by a discipline instead of a model: x[:k] with k < len(x) and append(x[:k], ...) are obligations (safe:alias) unless the field is declared owned or the prefix provably flows into read-only uses; in-place element writes into a shared slice fail those obligations",
		"determinism: no unit reads a mutable global or iterates over a map except in the set-building idiom of NewBuilder",
	}},
	"C10": {"proof", "All lexer functions are verified against contracts stated over the source text: the cursor invariant (line/column are the line-break count and the distance to the last line break of the byte offset, which never leaves the source), exact token starts/ends, tiling (NextToken starts at skipTrivia of the previous offset and ends inside the source), verbatim identifier/number slices with maximal munch for identifiers, keyword classification against the reserved-word list (keyword table invariant proved for package initialisation), operator classification and text, the after-newline flag, EOF exactly at the end and idempotent, absence of panics and termination of every loop (variants). Unbounded in input length; loops by invariants.", []string{
		"a line break is '\\n'; a lone '\\r' is whitespace for this lexer and for the specification functions",
		"token interceptors supplied by plugins are pass-through (interceptor(l, next) == next()): the hypothesis of property C04, encoded as the type contract of Interceptor values",
		"recursive specification functions (lineOf, colOf, skipTrivia, commentEnd, identEnd, hasNL) are well-founded by inspection (each call moves the offset strictly towards 0 or len(s))",
		"string/backtick token literals are covered by C07, not by C10's [slice] clause",
	}},
	"C09": {"proof", "Every function of package sourcemap is verified against its contract: the Base64-VLQ encoder against a byte-level decoder automaton (bit-vector semantics, loop fully unrolled with unwinding assertion), position tracking against line-break counting spec functions, name interning against the representation invariant, and encodeMappings against an item-level Source Map v3 decoder whose output must equal the recorded mappings (unbounded: loop invariants).", []string{
		"all recorded positions and name indices lie within +/-2^40 (precondition of encodeMappings/SourceMap; deltas then stay below 2^62 where encodeVLQ is proved)",
		"Meta M6: the mappings string tokenises uniquely into VLQ values and separators (each VLQ string ends in exactly one digit without continuation bit and contains only Base64 digits -- both proved for encodeVLQ); the item-level decoder is the v3 decoder modulo that tokenisation",
		"isVLQ/vlqVal are defined by the byte-level automaton in bit-vector mode and used as uninterpreted symbols by integer-mode callers",
	}},
}

func propLevel(p string) string {
	if i, ok := propTable[p]; ok {
		return i.level
	}
	return "other"
}

func propExplanation(p string) string {
	if i, ok := propTable[p]; ok {
		return i.explanation
	}
	return "contract-based deductive verification of the functions tagged with this property"
}

func propAssumptions(w *World, p string, keys []string) []string {
	var out []string
	if i, ok := propTable[p]; ok {
		out = append(out, i.assumptions...)
	}
	for _, k := range keys {
		if c := w.Contracts[k]; c != nil && c.Trusted {
			out = append(out, fmt.Sprintf("contract of %s is trusted (assumed, body not verified)", k))
		}
		if c := w.Contracts[k]; c != nil {
			for _, cl := range c.Requires {
				if cl.Assumed {
					h := fmt.Sprintf("hypothesis [%s] of %s is assumed on entry and not demanded of callers: %s", cl.Label, k, cl.Text)
					if len(h) > 300 {
						h = h[:300] + "..."
					}
					out = append(out, h)
				}
			}
		}
	}
	out = append(out, "receivers of methods under contract are non-nil (checked at every call site inside the verified packages)")
	return out
}
