package main

import "fmt"

type propInfo struct {
	level       string
	explanation string
	assumptions []string
}

var propTable = map[string]propInfo{
	"C10": {"proof", "All lexer functions are verified against contracts stated over the source text: the cursor invariant (line/column are the line-break count and the distance to the last line break of the byte offset, which never leaves the source), exact token starts/ends, tiling (NextToken starts at skipTrivia of the previous offset and ends inside the source), verbatim identifier/number slices with maximal munch for identifiers, keyword classification against the reserved-word list (keyword table invariant proved for package initialisation), operator classification and text, the after-newline flag, EOF exactly at the end and idempotent, absence of panics and termination of every loop (variants). Unbounded in input length; loops by invariants.", []string{
		"a line break is '\\n'; a lone '\\r' is whitespace for this lexer and for the specification functions",
		"token interceptors supplied by plugins are pass-through (interceptor(l, next) == next()): the hypothesis of property C04, encoded as the type contract of Interceptor values",
		"recursive specification functions (lineOf, colOf, skipTrivia, commentEnd, identEnd, hasNL) are well-founded by inspection (each call moves the offset strictly towards 0 or len(s))",
		"string/backtick token literals are covered by C07, not by C10's [slice] clause",
	}},
	"C09": {"proof", "Every function of package sourcemap is verified against its contract: the Base64-VLQ encoder against a byte-level decoder automaton (bit-vector semantics, loop fully unrolled with unwinding assertion), position tracking against line-break counting spec functions, name interning against the representation invariant, and encodeMappings against an item-level Source Map v3 decoder whose output must equal the recorded mappings (unbounded: loop invariants).", []string{
		"all recorded positions and name indices lie within +/-2^40 (precondition of encodeMappings/SourceMap; deltas then stay below 2^62 where encodeVLQ is proved)",
		"Meta M6: the mappings string tokenises uniquely into VLQ values and separators (each VLQ string ends in exactly one digit without continuation bit and contains only Base64 digits -- both proved for encodeVLQ); the item-level decoder is the v3 decoder modulo that tokenisation",
		"isVLQ/vlqVal are defined by the byte-level automaton in bit-vector mode and used as uninterpreted symbols by integer-mode callers",
	}},
}

func propLevel(p string) string {
	if i, ok := propTable[p]; ok {
		return i.level
	}
	return "other"
}

func propExplanation(p string) string {
	if i, ok := propTable[p]; ok {
		return i.explanation
	}
	return "contract-based deductive verification of the functions tagged with this property"
}

func propAssumptions(w *World, p string, keys []string) []string {
	var out []string
	if i, ok := propTable[p]; ok {
		out = append(out, i.assumptions...)
	}
	for _, k := range keys {
		if c := w.Contracts[k]; c != nil && c.Trusted {
			out = append(out, fmt.Sprintf("contract of %s is trusted (assumed, body not verified)", k))
		}
	}
	out = append(out, "receivers of methods under contract are non-nil (checked at every call site inside the verified packages)")
	return out
}
