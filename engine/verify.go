package main

import (
	"bytes"
	"context"
	"fmt"
	"go/token"
	"go/types"
	"os"
	"os/exec"
	"path/filepath"
	"regexp"
	"sort"
	"strings"
	"sync"
	"time"

	"golang.org/x/tools/go/ssa"
)

const tokLSS = token.LSS

// ObResult is the aggregated verdict for one named obligation of one function.
type ObResult struct {
	Fn        string
	Name      string
	Status    string // proved, refuted, unknown
	Instances int
	Solver    string
	TimeMS    int64
	Model     string // get-value output of the first refuted instance
	Script    string // standalone SMT script of the first failing instance
	Site      string
	Props     []string
	Detail    string
}

type FnResult struct {
	Key       string
	Obs       []*ObResult
	Paths     int
	Err       string // outside subset / engine error
	EngineErr bool
	Vacuous   bool
	WallMS    int64
	Mode      string
	SMTBytes  int
	Notes     []string
}

type Options struct {
	TimeoutMS int
	Workers   int
	KeepDir   string
	Solvers   []string
	Thorough  bool
}

func (w *World) verifyFn(key string, opt Options) (res *FnResult) {
	t0 := time.Now()
	res = &FnResult{Key: key}
	con := w.Contracts[key]
	fn := w.Funcs[key]
	if fn == nil {
		res.Err = "function not found in the current tree"
		res.EngineErr = true
		return
	}
	if con == nil {
		res.Err = "no contract"
		res.EngineErr = true
		return
	}
	res.Mode = con.Mode
	if con.Abstract {
		return
	}
	var aliasFrom *ssa.Function
	if con.SameAs != "" {
		tcon := w.Contracts[con.SameAs]
		tfn := w.Funcs[con.SameAs]
		if tcon == nil || tfn == nil {
			res.Err = "sameas target " + con.SameAs + " has no contract"
			res.EngineErr = true
			return
		}
		eff := *con
		eff.Requires, eff.Ensures, eff.Modifies = tcon.Requires, tcon.Ensures, tcon.Modifies
		con = &eff
		aliasFrom = tfn
	}
	x := &Exec{w: w, cx: newCx(w, con.Mode == "bv"), fn: fn, key: key, con: con, vars: collectVarsCon(fn, con), maxPaths: 3000, entryPar: map[string]Val{}, thorough: opt.Thorough}
	defer func() {
		res.WallMS = time.Since(t0).Milliseconds()
		if r := recover(); r != nil {
			if u, ok := r.(unsupported); ok {
				res.Err = u.Error()
				return
			}
			panic(r)
		}
	}()
	if fn.Blocks == nil {
		res.Err = "function has no body"
		return
	}
	st := &State{heap: map[string]string{}, fresh: map[string]bool{}, ptrs: map[string][]string{}, callSeq: map[string]int{}}
	fr := &frame{fn: fn, regs: map[ssa.Value]Val{}, cells: map[*ssa.Alloc]string{}, block: fn.Blocks[0], visits: map[int]int{}, variant: map[int]string{}}
	st.frames = []*frame{fr}
	cx := x.cx
	for i, p := range fn.Params {
		n := "p_" + sanitize(p.Name())
		if !isIdent(p.Name()) {
			n = fmt.Sprintf("p_anon%d", i)
		}
		x.addDecl(st, fmt.Sprintf("(declare-const %s %s)", n, cx.sortOf(p.Type())))
		x.typeFacts(st, n, p.Type(), 0)
		v := Val{S: n, T: p.Type()}
		fr.regs[p] = v
		x.entryPar[p.Name()] = v
		if cn := paramNames(fn, con)[i]; cn != p.Name() {
			x.entryPar[cn] = v
			x.paramAlias = append(x.paramAlias, [2]string{cn, p.Name()})
		}
		if pt, ok := p.Type().Underlying().(*types.Pointer); ok {
			x.notePtr(st, structName(pt.Elem()), n)
			if i == 0 && fn.Signature.Recv() != nil {
				x.assume(st, fmt.Sprintf("(not (= %s %s))", n, cx.num(0)))
				if st.nonnil == nil {
					st.nonnil = map[string]bool{}
				}
				st.nonnil[n] = true
			}
		}
	}
	for _, fv := range fn.FreeVars {
		n := "fv_" + sanitize(fv.Name())
		x.addDecl(st, fmt.Sprintf("(declare-const %s %s)", n, cx.intSort()))
		x.assume(st, fmt.Sprintf("(not (= %s %s))", n, cx.num(0)))
		et := fv.Type().(*types.Pointer).Elem()
		fr.regs[fv] = Val{S: n, T: fv.Type()}
		key := cx.cellKey(et)
		x.heapName(st, key)
		x.entryPar[fv.Name()] = Val{S: fmt.Sprintf("(select %s@0 %s)", key, n), T: et}
		x.notePtr(st, key, n)
	}
	if aliasFrom != nil {
		for i, p := range aliasFrom.Params {
			if i < len(fn.Params) {
				x.entryPar[p.Name()] = x.entryPar[fn.Params[i].Name()]
			}
		}
	}
	// modifies
	for _, m := range con.Modifies {
		if m == "*" {
			x.modAll = true
			continue
		}
		x.modSet = append(x.modSet, x.evalMod(st, m, x.entryPar, con)...)
	}
	x.buildProbes(st)
	if fn.Name() == "init" {
		cx.inInit = true
		// package initialisation establishes the global invariants of its package
		if g := w.Contracts[con.Pkg+".#global"]; g != nil {
			con.Ensures = append(append([]*Clause{}, con.Ensures...), g.Ensures...)
		}
	} else {
		x.assumeGlobals(st)
	}
	env := x.envFor(st, nil, con.Pkg, x.entryPar)
	for _, cl := range con.Requires {
		x.assume(st, x.clauseTerm(st, cl, env))
	}
	st.script = append(st.script, entry{kind: 'v', name: "cover:requires"})
	// an implementation of an interface method with a type contract must conform to it
	if fn.Signature.Recv() != nil {
		if slot := ifaceSlots[con.Pkg+"."+fn.Name()]; slot != "" && slot != key {
			ok, why := x.conforms(key, slot)
			g := "true"
			if !ok {
				g = "false"
				x.notes = append(x.notes, "typecontract:impl: "+why)
			}
			x.check(st, "typecontract:impl:"+con.Pkg+"."+fn.Name(), g, "contract")
		}
	}
	x.findLoops()
	allLoops := []*loopInfo{}
	for _, li := range x.loops {
		allLoops = append(allLoops, li)
	}
	for _, m := range x.inlLoops {
		for _, li := range m {
			allLoops = append(allLoops, li)
		}
	}
	for _, li := range allLoops {
		if li.spec != nil && li.spec.Unroll > 0 {
			x.prune = true
		}
	}
	for _, li := range allLoops {
		if li.spec == nil {
			panic(unsupported(fmt.Sprintf("loop %d has no loop contract (invariant or unroll)", li.ord)))
		}
	}
	for n := range con.Loops {
		found := false
		for _, li := range allLoops {
			if li.ord == n {
				found = true
			}
		}
		if !found {
			res.Err = fmt.Sprintf("contract names loop %d but the function has %d loops", n, len(allLoops))
			res.EngineErr = true
			return
		}
	}
	x.run(st)
	res.Paths = len(x.paths)
	res.Notes = x.notes
	if con.Trusted {
		return
	}
	x.solve(res, opt)
	// clauses that were set aside because they no longer fit the code: their obligations cannot be discharged
	for _, d := range con.Dropped {
		name := ""
		lab := d.Label
		switch d.Kind {
		case "ensures":
			name = "ensures[" + lab + "]"
		case "invariant":
			name = fmt.Sprintf("inv-step#%d[%s]", d.Loop, lab)
		case "before", "each":
			name = fmt.Sprintf("%s#%d[%s]", d.Kind, d.Loop, lab)
		case "decreases":
			name = fmt.Sprintf("variant#%d", d.Loop)
		case "atcall":
			name = "atcall[" + lab + "]"
		default:
			name = d.Kind + "[" + lab + "]"
		}
		res.Obs = append(res.Obs, &ObResult{Fn: key, Name: name, Status: "dropped", Props: d.Props, Detail: "the clause no longer type-checks against the current tree: " + d.Why})
	}
	return
}

// script composition -----------------------------------------------------------------------

func (x *Exec) preludeText() (string, error) {
	cx := x.cx
	lemmas := cx.lemmaAxioms(x.exceptLemma)
	specs, err := cx.specDefs()
	var b strings.Builder
	b.WriteString(cx.prelude())
	is := cx.intSort()
	if cx.bv {
		fmt.Fprintf(&b, "(assert (forall ((s Str)) (! (bvsle %s (s_len s)) :pattern ((s_len s)))))\n", cx.num(0))
		fmt.Fprintf(&b, "(assert (forall ((s Str) (i %s)) (! (bvule (s_at s i) %s) :pattern ((s_at s i)))))\n", is, cx.num(255))
	} else {
		b.WriteString("(assert (forall ((s Str)) (! (<= 0 (s_len s)) :pattern ((s_len s)))))\n")
		b.WriteString("(assert (forall ((s Str) (i Int)) (! (and (<= 0 (s_at s i)) (<= (s_at s i) 255)) :pattern ((s_at s i)))))\n")
	}
	for _, d := range cx.sortDecl {
		b.WriteString(d + "\n")
	}
	for _, n := range cx.ufOrder {
		b.WriteString(cx.uf[n] + "\n")
	}
	for _, l := range cx.litDecls() {
		b.WriteString(l + "\n")
	}
	if n, ok := cx.lits[""]; ok && cx.uf["s_hist"] != "" {
		fmt.Fprintf(&b, "(assert (= (s_hist %s) o_nil))\n", n)
	}
	b.WriteString(specs)
	for _, l := range lemmas {
		b.WriteString(l + "\n")
	}
	for _, f := range cx.foldBaseFacts() {
		b.WriteString(f + "\n")
	}
	// literals / sorts discovered while translating spec functions
	return b.String(), err
}

type checkRef struct {
	path int
	idx  int
	name string
	site string
	kind byte
}

func (x *Exec) compose(prelude string, path []entry, only int, timeoutMS int, refs *[]checkRef, pathNo int) string {
	return x.composeSkip(prelude, path, only, timeoutMS, refs, pathNo, nil)
}

// composeSkip: like compose, but the goals at the given script indices are not assumed after their position (they
// were not discharged, so nothing later on the path may lean on them).
func (x *Exec) composeSkip(prelude string, path []entry, only int, timeoutMS int, refs *[]checkRef, pathNo int, skip map[int]bool) string {
	var b strings.Builder
	fmt.Fprintf(&b, "(set-option :timeout %d)\n", timeoutMS)
	b.WriteString(prelude)
	for i, e := range path {
		switch e.kind {
		case 'd':
			b.WriteString(e.text + "\n")
		case 'a':
			b.WriteString("(assert " + e.text + ")\n")
		case 'W':
			for _, f := range x.cx.unfoldFacts(e.aux[0], e.aux[1], e.name, e.text) {
				b.WriteString(f + "\n")
			}
		case 'S':
			for _, k := range x.cx.foldOrd {
				fi := x.cx.foldUsed[k]
				for _, init := range x.cx.foldInits[fi.nameO] {
					fmt.Fprintf(&b, "(assert (= (%s %s %s (s_len %s)) (%s %s %s)))\n", fi.nameS, init, e.aux[0], e.aux[0], fi.nameO, init, e.aux[1])
				}
			}
			for _, k := range x.cx.foldOrd {
				fi := x.cx.foldUsed[k]
				fmt.Fprintf(&b, "(assert (forall ((s0 %s)) (! (= (%s s0 %s (s_len %s)) (%s s0 %s)) :pattern ((%s s0 %s (s_len %s))))))\n", fi.sort, fi.nameS, e.aux[0], e.aux[0], fi.nameO, e.aux[1], fi.nameS, e.aux[0], e.aux[0])
			}
		case 'v':
			if only >= 0 && only != i {
				continue
			}
			if e.inherited {
				continue
			}
			if refs != nil {
				*refs = append(*refs, checkRef{path: pathNo, idx: i, name: e.name, kind: 'v'})
			}
			fmt.Fprintf(&b, "(set-option :timeout 1500)\n(echo \"CHK %d\")\n(check-sat)\n(set-option :timeout %d)\n", i, timeoutMS)
		case 'c':
			if e.inherited || (only >= 0 && only != i) {
				if (only < 0 || i < only) && !skip[i] {
					b.WriteString("(assert " + e.text + ")\n")
				}
				continue
			}
			if refs != nil {
				*refs = append(*refs, checkRef{path: pathNo, idx: i, name: e.name, site: e.site, kind: 'c'})
			}
			fmt.Fprintf(&b, "(push 1)\n(assert (not %s))\n(echo \"CHK %d\")\n(check-sat)\n", e.text, i)
			if only >= 0 && len(x.probes) > 0 {
				var ts []string
				for _, p := range x.probes {
					ts = append(ts, p.term)
				}
				b.WriteString("(get-value (" + strings.Join(ts, " ") + "))\n")
			}
			b.WriteString("(pop 1)\n(assert " + e.text + ")\n")
		}
	}
	return b.String()
}

var reChk = regexp.MustCompile(`^"?CHK (\d+)"?$`)

type chkOut struct {
	status string
	rest   string
}

func runSolver(solver string, script string, overallMS int) (map[int]chkOut, string, error) {
	return runSolverCtx(context.Background(), solver, script, overallMS)
}

func runSolverCtx(parent context.Context, solver string, script string, overallMS int) (map[int]chkOut, string, error) {
	var cmd *exec.Cmd
	ctx, cancel := context.WithTimeout(parent, time.Duration(overallMS)*time.Millisecond)
	defer cancel()
	switch solver {
	case "z3":
		cmd = exec.CommandContext(ctx, "z3", "-in")
	case "z3-new":
		cmd = exec.CommandContext(ctx, "z3-new", "-in")
	case "cvc5":
		cmd = exec.CommandContext(ctx, "cvc5", "--lang=smt2", "--incremental", "--produce-models")
	default:
		return nil, "", fmt.Errorf("unknown solver %s", solver)
	}
	if solver == "cvc5" {
		// cvc5 takes the per-check limit on the command line; the :timeout option is z3's
		script = strings.Replace(script, "(set-option :timeout", "(set-info :xvc-timeout", 1)
		cmd.Args = append(cmd.Args, "--tlimit-per=10000")
	}
	cmd.Stdin = strings.NewReader(script)
	var out bytes.Buffer
	cmd.Stdout = &out
	cmd.Stderr = &out
	err := cmd.Run()
	res := map[int]chkOut{}
	cur := -1
	var rest []string
	flush := func() {
		if cur >= 0 {
			c := res[cur]
			c.rest = strings.Join(rest, "\n")
			res[cur] = c
		}
		rest = nil
	}
	lines := strings.Split(out.String(), "\n")
	for i := 0; i < len(lines); i++ {
		ln := strings.TrimSpace(lines[i])
		if m := reChk.FindStringSubmatch(ln); m != nil {
			flush()
			fmt.Sscanf(m[1], "%d", &cur)
			// next non-empty line is the status
			for i+1 < len(lines) {
				i++
				s := strings.TrimSpace(lines[i])
				if s == "" {
					continue
				}
				res[cur] = chkOut{status: s}
				break
			}
			continue
		}
		rest = append(rest, lines[i])
	}
	flush()
	_ = err
	for _, ln := range lines {
		t := strings.TrimSpace(ln)
		if strings.HasPrefix(t, "(error") && !strings.Contains(t, "model is not available") && !strings.Contains(t, "Cannot get model") && !strings.Contains(t, "cannot get model") {
			return res, out.String(), fmt.Errorf("solver error: %s", t)
		}
	}
	return res, out.String(), nil
}

func (x *Exec) solve(res *FnResult, opt Options) {
	prelude, perr := x.preludeText()
	if perr != nil {
		res.Err = perr.Error()
		return
	}
	type job struct {
		path   int
		script string
		refs   []checkRef
	}
	var jobs []job
	for pi, p := range x.paths {
		var refs []checkRef
		// whole-path pass with a short per-check limit; checks it leaves undecided are re-run one by one with the full limit
		pathMS := opt.TimeoutMS
		if pathMS > 4000 {
			pathMS = 4000
		}
		if (x.cx.bv || (x.con != nil && x.con.Slow > 0)) && opt.TimeoutMS >= 10000 {
			pathMS = 10000 // bit-vector goals are decided by bit-blasting: heavier, but never "stuck"; give them room under load
		}
		s := x.compose(prelude, p, -1, pathMS, &refs, pi)
		if len(refs) == 0 {
			continue
		}
		res.SMTBytes += len(s)
		jobs = append(jobs, job{pi, s, refs})
	}
	if opt.KeepDir != "" {
		os.MkdirAll(opt.KeepDir, 0o755)
		for _, j := range jobs {
			os.WriteFile(filepath.Join(opt.KeepDir, fmt.Sprintf("%s.path%d.smt2", sanitize(x.key), j.path)), []byte(j.script), 0o644)
		}
	}
	type inst struct {
		ref    checkRef
		status string
		solver string
		ms     int64
		rest   string
	}
	var mu sync.Mutex
	var insts []inst
	var wg sync.WaitGroup
	sem := solverSem
	if sem == nil {
		sem = make(chan struct{}, opt.Workers)
	}
	for _, j := range jobs {
		wg.Add(1)
		sem <- struct{}{}
		go func(j job) {
			defer wg.Done()
			defer func() { <-sem }()
			t0 := time.Now()
			primary := "z3"
			var out map[int]chkOut
			var raw string
			var serr error
			if x.cx.bv {
				primary = "z3-new"
				out, raw, serr = runSolver(primary, j.script, opt.TimeoutMS*len(j.refs)+20000)
			} else {
				out, raw, primary, serr = raceSolvers([]string{"z3", "z3-new"}, j.script, j.refs, 4000*len(j.refs)+20000)
			}
			if serr != nil {
				mu.Lock()
				if res.Err == "" {
					res.Err = serr.Error()
					res.EngineErr = true
				}
				mu.Unlock()
			}
			ms := time.Since(t0).Milliseconds()
			var local []inst
			for _, r := range j.refs {
				o, ok := out[r.idx]
				stt := "unknown"
				if ok {
					stt = o.status
				}
				if stt != "sat" && stt != "unsat" {
					if strings.HasPrefix(stt, "(error") {
						stt = "error: " + stt + " " + firstLines(raw, 3)
					} else if stt != "unknown" && stt != "timeout" {
						stt = "unknown"
					}
				}
				local = append(local, inst{ref: r, status: stt, solver: primary, ms: ms / int64(len(j.refs)), rest: o.rest})
			}
			// escalate undecided checks one by one to the other solvers
			for i := range local {
				in := &local[i]
				want := "unsat"
				if in.ref.kind == 'v' {
					continue
				}
				if in.status == want || in.status == "sat" {
					if in.status == "sat" {
						// re-run standalone to obtain a model
						s := x.compose(prelude, x.paths[in.ref.path], in.ref.idx, opt.TimeoutMS, nil, in.ref.path)
						_, raw, _ := runSolver(in.solver, s, opt.TimeoutMS+10000)
						in.rest = raw
					}
					continue
				}
				// bit-vector goals: the only reason to be undecided is time (machine load); escalate with five times the limit
				escMS := opt.TimeoutMS
				if x.cx.bv {
					escMS = 5 * opt.TimeoutMS
				} else if x.con != nil && x.con.Slow > 0 {
					escMS = x.con.Slow * opt.TimeoutMS
				}
				s := x.compose(prelude, x.paths[in.ref.path], in.ref.idx, escMS, nil, in.ref.path)
				t1 := time.Now()
				// first a short attempt in the lean context (see below): goals that are plain arithmetic over the path
				// are decided at once there, whatever the quantified hypotheses do to a solver's search
				if lean := leanScript(strings.Replace(s, fmt.Sprintf("(set-option :timeout %d)", escMS), "(set-option :timeout 5000)", 1)); lean != s {
					o0, _, sv0, _ := raceSolvers([]string{"z3", "z3-new"}, lean, []checkRef{in.ref}, 8000)
					if c, ok := o0[in.ref.idx]; ok && c.status == "unsat" {
						in.status = "unsat"
						in.solver = sv0
						in.ms = time.Since(t1).Milliseconds()
						continue
					}
				}
				o2, raw2, sv, _ := raceSolvers([]string{"z3-new", "cvc5", "z3"}, s, []checkRef{in.ref}, escMS+10000)
				if c, ok := o2[in.ref.idx]; ok && (c.status == "unsat" || c.status == "sat") {
					in.status = c.status
					in.solver = sv
					in.ms = time.Since(t1).Milliseconds()
					in.rest = raw2
					continue
				}
				// last attempt in a lean context: the universally quantified hypotheses (lemmas, global table
				// invariants) are dropped -- proving from fewer hypotheses is sound, and goals that are plain arithmetic
				// over the path (variants, bounds) no longer depend on one solver's instantiation heuristics
				if lean := leanScript(s); lean != s {
					o3, _, sv3, _ := raceSolvers([]string{"z3", "z3-new"}, lean, []checkRef{in.ref}, opt.TimeoutMS+10000)
					if c, ok := o3[in.ref.idx]; ok && c.status == "unsat" {
						in.status = "unsat"
						in.solver = sv3
						in.ms = time.Since(t1).Milliseconds()
					}
				}
			}
			// an undischarged goal must not serve as a lemma for the goals after it on the same path: those are
			// re-checked on their own without it
			failed := map[int]bool{}
			for _, in := range local {
				if in.ref.kind == 'c' && in.status != "unsat" {
					failed[in.ref.idx] = true
				}
			}
			if len(failed) > 0 {
				for i := range local {
					in := &local[i]
					if in.ref.kind != 'c' || in.status != "unsat" {
						continue
					}
					later := false
					for f := range failed {
						if f < in.ref.idx {
							later = true
						}
					}
					if !later {
						continue
					}
					s := x.composeSkip(prelude, x.paths[in.ref.path], in.ref.idx, opt.TimeoutMS, nil, in.ref.path, failed)
					o2, raw2, sv, _ := raceSolvers([]string{"z3-new", "z3", "cvc5"}, s, []checkRef{in.ref}, opt.TimeoutMS+10000)
					if c, ok := o2[in.ref.idx]; ok && c.status == "unsat" {
						in.solver = sv
						continue
					} else if ok && c.status == "sat" {
						in.status = "sat"
						in.rest = raw2
					} else {
						in.status = "unknown"
					}
					in.solver = sv
				}
			}
			mu.Lock()
			insts = append(insts, local...)
			mu.Unlock()
		}(j)
	}
	wg.Wait()
	// aggregate by obligation name
	byName := map[string]*ObResult{}
	var order []string
	coverSat := map[string]bool{}
	coverSeen := map[string]bool{}
	beforeSat := map[string]bool{}
	for _, in := range insts {
		if in.ref.kind == 'v' && strings.HasPrefix(in.ref.name, "cover:before ") && in.status == "sat" {
			beforeSat[fmt.Sprintf("%d|%s", in.ref.path, strings.TrimPrefix(in.ref.name, "cover:before "))] = true
		}
	}
	for _, in := range insts {
		if in.ref.kind == 'v' {
			if strings.HasPrefix(in.ref.name, "cover:before ") {
				continue
			}
			if strings.HasPrefix(in.ref.name, "cover:after ") {
				// a call may only make a path contradictory if it already was: flagged when the state was satisfiable
				// (or undecided) before the call and is unsatisfiable after assuming the callee's postconditions
				if in.status == "unsat" && beforeSat[fmt.Sprintf("%d|%s", in.ref.path, strings.TrimPrefix(in.ref.name, "cover:after "))] {
					coverSeen[in.ref.name] = true
				}
				continue
			}
			coverSeen[in.ref.name] = true
			if in.status != "unsat" {
				coverSat[in.ref.name] = true
			}
			continue
		}
		o := byName[in.ref.name]
		if o == nil {
			o = &ObResult{Fn: x.key, Name: in.ref.name, Status: "proved", Solver: in.solver, Site: in.ref.site}
			byName[in.ref.name] = o
			order = append(order, in.ref.name)
		}
		o.Instances++
		o.TimeMS += in.ms
		switch {
		case in.status == "unsat":
			if in.solver != "z3" {
				o.Solver = in.solver
			}
		case in.status == "sat":
			if o.Status != "refuted" {
				o.Status = "refuted"
				o.Model = in.rest
				o.Script = x.compose(prelude, x.paths[in.ref.path], in.ref.idx, opt.TimeoutMS, nil, in.ref.path)
				o.Detail = fmt.Sprintf("path %d", in.ref.path)
			}
		default:
			if o.Status == "proved" {
				o.Status = "unknown"
				o.Script = x.compose(prelude, x.paths[in.ref.path], in.ref.idx, opt.TimeoutMS, nil, in.ref.path)
				o.Detail = fmt.Sprintf("path %d: %s", in.ref.path, in.status)
			}
		}
	}
	sort.Strings(order)
	for _, n := range order {
		res.Obs = append(res.Obs, byName[n])
	}
	for n := range coverSeen {
		if !coverSat[n] {
			res.Vacuous = true
			res.Err = "vacuous: " + n + " is unsatisfiable (contradictory requires/invariant)"
			res.EngineErr = true
		}
	}
}

// leanScript drops the top-level universally quantified hypotheses of a query.
func leanScript(s string) string {
	lines := strings.Split(s, "\n")
	out := lines[:0:0]
	for _, ln := range lines {
		if strings.HasPrefix(ln, "(assert (forall ") {
			continue
		}
		out = append(out, ln)
	}
	return strings.Join(out, "\n")
}

func firstLines(s string, n int) string {
	ls := strings.Split(s, "\n")
	if len(ls) > n {
		ls = ls[:n]
	}
	return strings.Join(ls, " | ")
}

// feasible asks the solver whether the current path condition together with cond is satisfiable (used to prune
// infeasible branches in unrolled loops). Unknown counts as feasible.
func (x *Exec) feasible(st *State, cond string) bool {
	prelude, err := x.preludeText()
	if err != nil {
		return true
	}
	var b strings.Builder
	b.WriteString("(set-option :timeout 2000)\n")
	b.WriteString(prelude)
	for _, e := range st.script {
		switch e.kind {
		case 'd':
			b.WriteString(e.text + "\n")
		case 'a', 'c':
			if e.text != "" {
				b.WriteString("(assert " + e.text + ")\n")
			}
		}
	}
	b.WriteString("(assert " + cond + ")\n(echo \"CHK 0\")\n(check-sat)\n")
	out, _, _ := runSolver("z3", b.String(), 5000)
	if o, ok := out[0]; ok && o.status == "unsat" {
		x.pruned++
		return false
	}
	return true
}

// solverSem bounds the number of solver processes of the whole run (all functions verified concurrently share it).
var solverSem chan struct{}

// raceSolvers runs the script on several solvers at once and returns the first result in which every check is decided
// (unsat/sat); if none is, the result with the most decided checks.
func raceSolvers(solvers []string, script string, refs []checkRef, overallMS int) (map[int]chkOut, string, string, error) {
	type res struct {
		out    map[int]chkOut
		raw    string
		solver string
		err    error
		n      int
	}
	ch := make(chan res, len(solvers))
	ctx, cancel := context.WithCancel(context.Background())
	defer cancel()
	for _, sv := range solvers {
		go func(sv string) {
			out, raw, err := runSolverCtx(ctx, sv, script, overallMS)
			n := 0
			for _, r := range refs {
				if o, ok := out[r.idx]; ok && (o.status == "unsat" || o.status == "sat") {
					n++
				}
			}
			ch <- res{out, raw, sv, err, n}
		}(sv)
	}
	var best *res
	for range solvers {
		r := <-ch
		if r.n == len(refs) {
			return r.out, r.raw, r.solver, nil
		}
		if best == nil || r.n > best.n || (r.n == best.n && best.err != nil && r.err == nil) {
			rr := r
			best = &rr
		}
	}
	return best.out, best.raw, best.solver, best.err
}

type probe struct {
	label string
	term  string
	t     types.Type
}

// buildProbes lists the terms whose model values describe the pre-state of the unit (for counterexamples / replay).
func (x *Exec) buildProbes(st *State) {
	cx := x.cx
	addStr := func(label, term string) {
		x.probes = append(x.probes, probe{label + ".len", fmt.Sprintf("(s_len %s)", term), types.Typ[types.Int]})
		for i := 0; i < 24; i++ {
			x.probes = append(x.probes, probe{fmt.Sprintf("%s[%d]", label, i), fmt.Sprintf("(s_at %s %s)", term, cx.num(int64(i))), types.Typ[types.Uint8]})
		}
	}
	var addVal func(label, term string, t types.Type, depth int)
	addVal = func(label, term string, t types.Type, depth int) {
		if isBuilder(t) {
			return
		}
		switch u := t.Underlying().(type) {
		case *types.Basic:
			if isString(t) {
				addStr(label, term)
				return
			}
			x.probes = append(x.probes, probe{label, term, t})
		case *types.Pointer, *types.Map:
			x.probes = append(x.probes, probe{label, term, t})
		case *types.Struct:
			if depth > 1 {
				return
			}
			sn := cx.sortOf(t)
			for i := 0; i < u.NumFields(); i++ {
				addVal(label+"."+u.Field(i).Name(), fmt.Sprintf("(%s_%s %s)", sn, u.Field(i).Name(), term), u.Field(i).Type(), depth+1)
			}
		case *types.Slice:
			sn := cx.sortOf(t)
			x.probes = append(x.probes, probe{label + ".len", fmt.Sprintf("(len_%s %s)", sn, term), types.Typ[types.Int]})
			if depth > 0 {
				return
			}
			for i := 0; i < 4; i++ {
				addVal(fmt.Sprintf("%s[%d]", label, i), fmt.Sprintf("(select (arr_%s %s) %s)", sn, term, cx.num(int64(i))), u.Elem(), depth+1)
			}
		}
	}
	for _, p := range x.fn.Params {
		v := x.entryPar[p.Name()]
		if pt, ok := p.Type().Underlying().(*types.Pointer); ok {
			if stt, ok := pt.Elem().Underlying().(*types.Struct); ok && !isBuilder(pt.Elem()) {
				x.probes = append(x.probes, probe{p.Name(), v.S, p.Type()})
				for i := 0; i < stt.NumFields(); i++ {
					ft := stt.Field(i).Type()
					if _, isFn := ft.Underlying().(*types.Signature); isFn {
						continue
					}
					if _, isIf := ft.Underlying().(*types.Interface); isIf {
						continue
					}
					key, _ := cx.fieldKey(pt.Elem(), i)
					x.heapName(st, key)
					addVal(p.Name()+"."+stt.Field(i).Name(), fmt.Sprintf("(select %s@0 %s)", key, v.S), ft, 0)
				}
				continue
			}
		}
		addVal(p.Name(), v.S, p.Type(), 0)
	}
}

// assumeGlobals assumes the global invariants of the packages the unit's package imports (and its own).
// Sound because the variables are never assigned after initialisation (scanGlobalStores) and the contents of
// the objects they point to are outside every modifies clause (frame checks).
func (x *Exec) assumeGlobals(st *State) {
	pkg := x.w.Pkgs[x.con.Pkg]
	for _, k := range sortedKeys(x.w.Contracts) {
		if !strings.HasSuffix(k, ".#global") {
			continue
		}
		g := x.w.Contracts[k]
		if g.Pkg != x.con.Pkg {
			imp := false
			for path := range pkg.Imports {
				if shortPkg(path) == g.Pkg {
					imp = true
				}
			}
			if !imp {
				continue
			}
		}
		env := x.envFor(st, nil, g.Pkg, map[string]Val{})
		for _, cl := range g.Ensures {
			x.assume(st, x.clauseTerm(st, cl, env))
		}
	}
}
