from z3 import *
# Simplified ECMAScript string-literal evaluator (byte step). modes: 0 N, 1 ESC, 2 X1, 3 X2, 4 OCT (one pending octal digit group), 5 CRESC
class St: pass
def mk(p):
    s=St(); s.mode=Int(p+"mode"); s.acc=Int(p+"acc"); s.need=Int(p+"need"); s.cp=Int(p+"cp")
    s.cnt=Int(p+"cnt"); s.out=Array(p+"out",IntSort(),IntSort()); s.done=Bool(p+"done"); s.err=Bool(p+"err"); return s
def cp_(s):
    t=St(); t.__dict__.update(s.__dict__); return t
def ite_state(c,a,b):
    t=St()
    for f in a.__dict__: setattr(t,f,If(c,getattr(a,f),getattr(b,f)))
    return t
def emit(s,v):
    t=cp_(s); t.out=Store(s.out,s.cnt,v); t.cnt=s.cnt+1; return t
def hexv(c): return If(And(c>=48,c<=57),c-48,If(And(c>=97,c<=102),c-87,c-55))
def ishex(c): return Or(And(c>=48,c<=57),And(c>=97,c<=102),And(c>=65,c<=70))
def deliver(q,s,c):
    # char layer, code point c
    def setmode(s,m,acc=None):
        t=cp_(s); t.mode=IntVal(m) if isinstance(m,int) else m
        if acc is not None: t.acc=acc
        return t
    def errS(s):
        t=cp_(s); t.err=BoolVal(True); return t
    def doneS(s):
        t=cp_(s); t.done=BoolVal(True); return t
    isoct=And(c>=48,c<=55)
    # N
    n=If(c==q,0,0)
    sN=ite_state(c==q,doneS(s), ite_state(c==92,setmode(s,1), ite_state(Or(c==10,c==13),errS(s), emit(s,c))))
    # ESC
    simple=If(c==110,10,If(c==116,9,If(c==114,13,If(c==98,8,If(c==102,12,If(c==118,11,c))))))
    sE=ite_state(c==120,setmode(s,2),
       ite_state(c==117,errS(s),   # \u not modelled in this probe
       ite_state(isoct,setmode(s,4,c-48),
       ite_state(c==10,setmode(s,0),
       ite_state(c==13,setmode(s,5), setmode(emit(s,simple),0))))))
    sX1=ite_state(ishex(c),setmode(s,3,hexv(c)),errS(s))
    sX2=ite_state(ishex(c),setmode(emit(s,s.acc*16+hexv(c)),0),errS(s))
    return sN,sE,sX1,sX2,isoct
def charstep(q,s,c,depth=0):
    sN,sE,sX1,sX2,isoct=deliver(q,s,c)
    # OCT: another octal digit extends (only one extension modelled), anything else: flush and reprocess as N
    flushed=cp_(emit(s,s.acc)); flushed.mode=IntVal(0)
    fN,_,_,_,_=deliver(q,flushed,c)
    sO=ite_state(And(isoct,s.acc<32),(lambda t:(setattr(t,'acc',s.acc*8+c-48),t)[1])(cp_(s)), fN)
    backN=cp_(s); backN.mode=IntVal(0)
    bN,_,_,_,_=deliver(q,backN,c)
    sC=ite_state(c==10,backN,bN)
    r=ite_state(s.mode==0,sN,ite_state(s.mode==1,sE,ite_state(s.mode==2,sX1,ite_state(s.mode==3,sX2,ite_state(s.mode==4,sO,sC)))))
    return r
def step(q,s,b):
    # UTF-8 layer (1- and 2-byte only in this probe); absorbing done/err
    t=cp_(s)
    cont=And(b>=128,b<=191)
    pend=cp_(s); pend.need=IntVal(0)
    a=charstep(q,pend,s.cp*64+(b-128))
    e=cp_(s); e.err=BoolVal(True)
    lead=cp_(s); lead.need=IntVal(1); lead.cp=b-192
    r=ite_state(s.need>0, ite_state(cont,a,e),
        ite_state(b<128, charstep(q,s,b), ite_state(And(b>=194,b<=223),lead,e)))
    return ite_state(Or(s.done,s.err),s,r)
def same(a,b): return And(a.mode==b.mode,a.acc==b.acc,a.need==b.need,a.cp==b.cp,a.cnt==b.cnt,a.out==b.out,a.done==b.done,a.err==b.err)
S=mk("S_"); q=Int("q"); h1,h2=Ints("h1 h2")
inv=And(Not(S.err),Not(S.done),S.need>=0,S.need<=1,S.cnt>=0,S.acc>=0,S.acc<64, Or(S.mode==0,S.mode==4,S.mode==5, And(S.mode==1,S.need>0)), Or(q==34,q==39))
src=step(q,step(q,step(q,step(q,S,IntVal(92)),IntVal(120)),h1),h2)
v=hexv(h1)*16+hexv(h2)
outS=step(IntVal(34),S,v)
pre=And(inv,ishex(h1),ishex(h2))
def chk(extra,label):
    s=Solver(); s.set("timeout",60000); s.add(pre,extra,Not(src.err),Not(And(Not(outS.err),same(src,outS) if False else And(src.mode==outS.mode,src.cnt==outS.cnt,src.out==outS.out,src.done==outS.done,Not(outS.err)))))
    r=s.check(); print(label,r, (dict(v=s.model().eval(v),mode=s.model()[S.mode],q=s.model()[q]) if r==sat else ""))
import time; t=time.time()
chk(And(v!=34,v!=92,v!=10,v!=13,v<128),"safe values (expect unsat):")
chk(BoolVal(True),"all values (expect sat, a bad byte):")
chk(And(v>=128),"v>=0x80 (expect sat):")
chk(And(v==39,q==39),"v is the source quote ' (expect unsat: out is dq):")
print("secs",round(time.time()-t,2))
