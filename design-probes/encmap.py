from z3 import *
# Item-level v3 decoder state (ghost). Fields accumulate running absolutes; commit on separator.
class S: pass
def mkS(p):
    s=S()
    for f in "line col src sl sc ni fieldNo count segs".split(): setattr(s,f,Int(p+f))
    s.err=Bool(p+"err")
    for a in "oGL oGC oSL oSC oNI".split(): setattr(s,a,Array(p+a,IntSort(),IntSort()))
    s.oHN=Array(p+"oHN",IntSort(),BoolSort())
    return s
def copy(s):
    t=S(); t.__dict__.update(s.__dict__); return t
def commit(s):  # returns state after committing a pending segment if any (fieldNo in {4,5}); err if 1..3
    t=copy(s)
    pend=Or(s.fieldNo==4,s.fieldNo==5)
    t.oGL=If(pend,Store(s.oGL,s.count,s.line),s.oGL); t.oGC=If(pend,Store(s.oGC,s.count,s.col),s.oGC)
    t.oSL=If(pend,Store(s.oSL,s.count,s.sl),s.oSL); t.oSC=If(pend,Store(s.oSC,s.count,s.sc),s.oSC)
    t.oNI=If(pend,Store(s.oNI,s.count,s.ni),s.oNI); t.oHN=If(pend,Store(s.oHN,s.count,s.fieldNo==5),s.oHN)
    t.count=If(pend,s.count+1,s.count); t.segs=If(pend,s.segs+1,s.segs)
    t.err=Or(s.err,And(s.fieldNo!=0,Not(pend)))
    t.fieldNo=IntVal(0)
    return t
def comma(s):
    t=commit(s); t.err=Or(t.err, s.fieldNo==0)  # comma must follow a segment
    return t
def semi(s):
    t=commit(s); t.line=t.line+1; t.col=IntVal(0); t.segs=IntVal(0); return t
def value(s,v):
    t=copy(s)
    t.col=If(s.fieldNo==0,s.col+v,s.col); t.src=If(s.fieldNo==1,s.src+v,s.src)
    t.sl=If(s.fieldNo==2,s.sl+v,s.sl); t.sc=If(s.fieldNo==3,s.sc+v,s.sc); t.ni=If(s.fieldNo==4,s.ni+v,s.ni)
    t.err=Or(s.err,s.fieldNo>=5); t.fieldNo=s.fieldNo+1
    return t
# program state
mGL,mGC,mSL,mSC,mNI=[Array(n,IntSort(),IntSort()) for n in "mGL mGC mSL mSC mNI".split()]
mHN=Array("mHN",IntSort(),BoolSort()); n=Int("n")
j=Int("j")
sorted_=ForAll([j],Implies(And(0<=j,j+1<n),Select(mGL,j)<=Select(mGL,j+1)))
def Inv(s,k,pGC,pSI,pSL,pSC,pNI,cur,segs):
    d=commit(s)  # view after virtual commit
    return And(0<=k,k<=n, Not(d.err), d.count==k,
      ForAll([j],Implies(And(0<=j,j<k),And(Select(d.oGL,j)==Select(mGL,j),Select(d.oGC,j)==Select(mGC,j),Select(d.oSL,j)==Select(mSL,j),Select(d.oSC,j)==Select(mSC,j),Select(d.oHN,j)==Select(mHN,j),Implies(Select(mHN,j),Select(d.oNI,j)==Select(mNI,j))))),
      s.line==cur, s.col==pGC, s.src==pSI, pSI==0, s.sl==pSL, s.sc==pSC, s.ni==pNI,
      Implies(k==0,And(s.fieldNo==0,cur==0,segs==0)), Implies(k>0,And(Or(s.fieldNo==4,s.fieldNo==5),cur==Select(mGL,k-1))),
      cur>=0, (segs>0)==(d.segs>0), segs>=0, s.segs>=0)
s0=mkS("s0_"); k=Int("k"); pGC,pSI,pSL,pSC,pNI,cur,segs=Ints("pGC pSI pSL pSC pNI cur segs")
pre=And(n>0,Select(mGL,0)>=0,sorted_,Inv(s0,k,pGC,pSI,pSL,pSC,pNI,cur,segs),k<n)
# body for mapping k. inner loop: summarised by its own invariant: after it, cur1==max(cur,GL) ; here GL>=cur by sortedness so cur1==GL, and decoder got (GL-cur) semis.
GL,GC,SL,SC,NI,HN=Select(mGL,k),Select(mGC,k),Select(mSL,k),Select(mSC,k),Select(mNI,k),Select(mHN,k)
def run(nsemis):  # explicit small number of semis to test the path shapes
    s=s0; c=cur; g=pGC; sg=segs
    for _ in range(nsemis):
        s=semi(s); c=c+1; g=IntVal(0); sg=IntVal(0)
    guard=(c==GL)  # inner loop exit: not (c < GL); with sortedness c<=GL so c==GL
    s_c=comma(s)
    # branch on sg>0
    res=[]
    for takeComma in (True,False):
        t=s_c if takeComma else s
        t=value(t,GC-g); t=value(t,0-pSI); t=value(t,SL-pSL); t=value(t,SC-pSC)
        for named in (True,False):
            u=value(t,NI-pNI) if named else t
            pn=NI if named else pNI
            cond=And(guard,(sg>0)==takeComma,HN==named, cur+nsemis==c)
            post=Inv(u,k+1,GC,IntVal(0),SL,SC,pn,c,sg+1)
            res.append((cond,post))
    return res
for ns in (0,1,2):
    for i,(cond,post) in enumerate(run(ns)):
        sol=Solver(); sol.set("timeout",20000)
        sol.add(pre, cur+ns==GL, cond, Not(post))
        print("semis",ns,"path",i,sol.check())
